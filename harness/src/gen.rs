//! Weighted recursive script generator over the harness AST. Scripts are well scoped by
//! construction; fallible instructions are only generated on the left of an `xor` with no `par`
//! in between (the shape the C16 fragment requires); every call site has a unique function name
//! and every literal appended to a stream is unique.
use crate::ast::*;
use crate::rng::Rng;

#[derive(Clone, Debug)]
pub struct GenCfg {
    pub n_peers: usize,
    pub budget: usize,
    pub max_depth: usize,
    pub streams: bool,
    pub maps: bool,
    pub canon: bool,
    pub errors: bool,
    pub lenses: bool,
    pub folds: bool,
    pub rec_streams: bool,
    pub news: bool,
    pub never: bool,
    pub bad_json: bool,
    /// use %last_error% / :error: as call arguments in xor right branches
    pub error_vals: bool,
    pub var_targets: bool,
    /// allow the right branch of a par to use variables defined in its left branch (a join: the
    /// call waits until the data reaches its peer, which may never happen)
    pub par_joins: bool,
    /// the C16 fragment, strictly: nothing that can fail sits under a par (including the par of a
    /// `(fold .. (par body (next)))`) unless an xor lies in between
    pub strict_guard: bool,
}

impl GenCfg {
    pub fn fseq(n_peers: usize, budget: usize) -> GenCfg {
        GenCfg {
            n_peers,
            budget,
            max_depth: 7,
            streams: false,
            maps: false,
            canon: false,
            errors: true,
            lenses: true,
            folds: true,
            rec_streams: false,
            news: true,
            never: true,
            bad_json: false,
            error_vals: false,
            var_targets: true,
            par_joins: true,
            strict_guard: false,
        }
    }
    pub fn fstream(n_peers: usize, budget: usize) -> GenCfg {
        GenCfg { streams: true, maps: true, canon: true, rec_streams: true, ..GenCfg::fseq(n_peers, budget) }
    }
    /// streams but nothing that can fail (for the quiescence/exactly-once oracles)
    pub fn fstream_nofail(n_peers: usize, budget: usize) -> GenCfg {
        GenCfg { errors: false, never: false, par_joins: false, ..GenCfg::fstream(n_peers, budget) }
    }
}

#[derive(Clone, Debug, PartialEq)]
pub enum Shape {
    Obj,
    ArrStr,
    ArrObj,
    Peers,
    PeerId,
    Str,
    Num,
    Idx,
    Key,
    ErrObj,
    ElemObj,
    /// stream-map fold iterator / canon-map element: {"key":..,"value":..}
    Kv,
    Canon(Box<Shape>),
    CanonMap,
    Unknown,
}

#[derive(Clone, Debug)]
pub struct VarInfo {
    pub name: String,
    pub shape: Shape,
}

pub struct Script {
    pub ins: Ins,
    pub air: String,
    pub n_calls: usize,
    pub has_streams: bool,
}

pub struct Gen<'a> {
    pub rng: &'a mut Rng,
    pub cfg: GenCfg,
    pub peer_ids: Vec<String>,
    scope: Vec<VarInfo>,
    streams: Vec<(String, Shape)>,
    maps: Vec<String>,
    /// iterators of enclosing folds, innermost last
    iters: Vec<String>,
    /// streams/maps currently being folded over: no appends to them from inside (unbounded recursion)
    folding: Vec<String>,
    next_id: usize,
    budget: isize,
    has_streams: bool,
    n_calls: usize,
}

#[derive(Clone, Copy)]
struct Ctx {
    depth: usize,
    /// directly under an xor-left with no par in between: fallible instructions allowed
    guard: bool,
    /// inside xor right branch (error values meaningful)
    in_catch: bool,
}

impl<'a> Gen<'a> {
    pub fn new(rng: &'a mut Rng, cfg: GenCfg, peer_ids: Vec<String>) -> Self {
        let budget = cfg.budget as isize;
        Gen { rng, cfg, peer_ids, scope: vec![], streams: vec![], maps: vec![], iters: vec![], folding: vec![], next_id: 0, budget, has_streams: false, n_calls: 0 }
    }

    pub fn script(mut self) -> Script {
        let ctx = Ctx { depth: 0, guard: false, in_catch: false };
        let mut parts = vec![];
        // a first call so there is always something in scope
        parts.push(self.gen_call(ctx, Some("f")));
        while self.budget > 0 {
            parts.push(self.gen_ins(ctx));
        }
        let ins = seq_all(parts);
        let air = ins.text();
        Script { ins, air, n_calls: self.n_calls, has_streams: self.has_streams }
    }

    fn id(&mut self) -> usize {
        self.next_id += 1;
        self.next_id
    }

    fn fresh(&mut self, prefix: &str) -> String {
        let i = self.id();
        format!("{prefix}{i}")
    }

    fn vars_of(&self, pred: impl Fn(&Shape) -> bool) -> Vec<VarInfo> {
        self.scope.iter().filter(|v| pred(&v.shape)).cloned().collect()
    }

    fn gen_peer_target(&mut self, ctx: Ctx) -> Val {
        let _ = ctx;
        let mut opts: Vec<Val> = vec![];
        if self.cfg.var_targets {
            for v in &self.scope {
                match v.shape {
                    Shape::PeerId => opts.push(Val::Var(v.name.clone())),
                    Shape::Obj | Shape::ElemObj if self.cfg.lenses => {
                        opts.push(Val::VarLens(v.name.clone(), Lens::Path(vec![Acc::Field("p".into())])))
                    }
                    _ => {}
                }
            }
        }
        let r = self.rng.below(10);
        if r < 6 || opts.is_empty() {
            if r == 0 {
                Val::InitPeer
            } else {
                let i = self.rng.below(self.cfg.n_peers);
                Val::Lit(self.peer_ids[i].clone())
            }
        } else {
            self.rng.pick(&opts).clone()
        }
    }

    /// a value expression that always resolves (given the shapes) unless `fallible`
    fn gen_arg(&mut self, ctx: Ctx, fallible: bool) -> Val {
        let r = self.rng.below(100);
        if r < 12 || self.scope.is_empty() {
            let k = self.rng.below(8);
            return match k {
                0 => Val::InitPeer,
                1 => Val::Int(self.rng.below(1000) as i64 - 500),
                2 => Val::Bool(self.rng.chance(1, 2)),
                3 => Val::EmptyArr,
                4 => Val::Timestamp,
                5 => Val::Ttl,
                6 => Val::Float(format!("{}.5", self.rng.below(100))),
                _ => {
                    let n = self.id();
                    Val::Lit(format!("lit{n}"))
                }
            };
        }
        if ctx.in_catch && self.cfg.error_vals && r < 30 {
            return match self.rng.below(4) {
                0 => Val::Error(None),
                1 => Val::Error(Some(Lens::Path(vec![Acc::Field("error_code".into())]))),
                2 => Val::LastError(Some(Lens::Path(vec![Acc::Field("message".into())]))),
                _ => Val::Error(Some(Lens::Path(vec![Acc::Field("message".into())]))),
            };
        }
        let v = self.rng.pick(&self.scope).clone();
        if !self.cfg.lenses || self.rng.chance(1, 2) {
            return Val::Var(v.name);
        }
        match self.gen_lens(&v, fallible) {
            Some(l) => Val::VarLens(v.name, l),
            None => Val::Var(v.name),
        }
    }

    fn gen_lens(&mut self, v: &VarInfo, fallible: bool) -> Option<Lens> {
        let idxs = self.vars_of(|s| *s == Shape::Idx);
        let keys = self.vars_of(|s| *s == Shape::Key);
        let f = |s: &str| Acc::Field(s.to_string());
        let mut opts: Vec<Vec<Acc>> = vec![];
        match &v.shape {
            Shape::Obj => {
                opts.push(vec![f("tag")]);
                opts.push(vec![f("a")]);
                opts.push(vec![f("a"), f("b")]);
                opts.push(vec![f("a"), f("b"), Acc::Idx(0)]);
                opts.push(vec![f("a"), f("b"), Acc::Idx(1)]);
                opts.push(vec![f("a"), f("c")]);
                opts.push(vec![f("p")]);
                for i in &idxs {
                    opts.push(vec![f("a"), f("b"), Acc::ByScalar(i.name.clone())]);
                }
                for k in &keys {
                    opts.push(vec![Acc::ByScalar(k.name.clone())]);
                }
                if fallible {
                    opts.push(vec![f("nope")]);
                    opts.push(vec![f("a"), f("b"), Acc::Idx(7)]);
                    opts.push(vec![Acc::Idx(0)]);
                    opts.push(vec![f("tag"), f("x")]);
                }
            }
            Shape::ArrStr | Shape::Peers => {
                opts.push(vec![Acc::Idx(0)]);
                if fallible {
                    opts.push(vec![Acc::Idx(5)]);
                    opts.push(vec![f("a")]);
                }
            }
            Shape::ArrObj => {
                opts.push(vec![Acc::Idx(0)]);
                opts.push(vec![Acc::Idx(0), f("e")]);
                opts.push(vec![Acc::Idx(0), f("p")]);
                if fallible {
                    opts.push(vec![Acc::Idx(4), f("e")]);
                }
            }
            Shape::ElemObj => {
                opts.push(vec![f("e")]);
                opts.push(vec![f("p")]);
                opts.push(vec![f("i")]);
            }
            Shape::Kv => {
                opts.push(vec![f("key")]);
                opts.push(vec![f("value")]);
            }
            Shape::ErrObj => {
                opts.push(vec![f("error_code")]);
                opts.push(vec![f("message")]);
            }
            Shape::Canon(inner) => {
                if fallible {
                    opts.push(vec![Acc::Idx(0)]);
                    opts.push(vec![Acc::Idx(1)]);
                    if **inner == Shape::Obj {
                        opts.push(vec![Acc::Idx(0), f("tag")]);
                        opts.push(vec![Acc::Idx(0), f("a"), f("b"), Acc::Idx(0)]);
                    }
                }
                if self.rng.chance(1, 4) {
                    return Some(Lens::Length);
                }
            }
            Shape::CanonMap => {
                if self.rng.chance(1, 3) {
                    return Some(Lens::Length);
                }
                if fallible {
                    opts.push(vec![f("k1")]);
                    opts.push(vec![f("k1"), Acc::Idx(0)]);
                }
            }
            _ => {}
        }
        if matches!(v.shape, Shape::ArrStr | Shape::ArrObj | Shape::Peers) && self.rng.chance(1, 6) {
            return Some(Lens::Length);
        }
        if opts.is_empty() {
            return None;
        }
        Some(Lens::Path(self.rng.pick(&opts).clone()))
    }

    fn lens_shape(base: &Shape, l: &Lens) -> Shape {
        let p = match l {
            Lens::Length => return Shape::Num,
            Lens::Path(p) => p,
        };
        let names: Vec<String> = p
            .iter()
            .map(|a| match a {
                Acc::Idx(i) => format!("[{i}]"),
                Acc::Field(f) => f.clone(),
                Acc::ByScalar(_) => "[s]".into(),
            })
            .collect();
        let n: Vec<&str> = names.iter().map(|s| s.as_str()).collect();
        match (base, n.as_slice()) {
            (Shape::Obj, ["p"]) | (Shape::ElemObj, ["p"]) | (Shape::ArrObj, ["[0]", "p"]) | (Shape::Peers, ["[0]"]) => Shape::PeerId,
            (Shape::Obj, ["tag"]) | (Shape::Obj, ["a", "c"]) | (Shape::ArrStr, ["[0]"]) | (Shape::ElemObj, ["e"]) | (Shape::ArrObj, ["[0]", "e"]) => Shape::Str,
            (Shape::ArrObj, ["[0]"]) => Shape::ElemObj,
            (Shape::Kv, ["key"]) => Shape::Str,
            _ => Shape::Unknown,
        }
    }

    fn gen_call(&mut self, ctx: Ctx, force_kind: Option<&str>) -> Ins {
        self.gen_call_out(ctx, force_kind, None)
    }

    fn gen_call_out(&mut self, ctx: Ctx, force_kind: Option<&str>, force_out: Option<Out>) -> Ins {
        self.budget -= 1;
        self.n_calls += 1;
        let peer = self.gen_peer_target(ctx);
        let fail_here = ctx.guard && self.cfg.errors && self.rng.chance(1, 4);
        let kind = match force_kind {
            Some(k) => k.to_string(),
            None => {
                if fail_here && self.rng.chance(2, 3) {
                    if self.cfg.bad_json && self.rng.chance(1, 4) { "bad".into() } else { "e".into() }
                } else {
                    let kinds = ["f", "f", "f", "arr", "arro", "peers", "peer", "str", "num", "idx", "key", "errobj", "empty"];
                    let w = [30, 0, 0, 12, 10, if self.cfg.var_targets { 6 } else { 0 }, if self.cfg.var_targets { 8 } else { 0 }, 5, 3, 5, 4, if self.cfg.errors { 2 } else { 0 }, 1];
                    kinds[self.rng.weighted(&w)].to_string()
                }
            }
        };
        let site = self.id();
        let func = format!("{kind}{site}");
        let nargs = self.rng.below(3);
        let lens_fail = fail_here && kind != "e" && kind != "bad";
        let mut args: Vec<Val> = (0..nargs).map(|_| self.gen_arg(ctx, lens_fail)).collect();
        // all enclosing iterators as trailing arguments: call-site instances are distinguishable
        for it in self.iters.clone() {
            args.push(Val::Var(it));
        }
        let service = if self.rng.chance(1, 12) {
            let strs = self.vars_of(|s| *s == Shape::Str || *s == Shape::Key);
            if strs.is_empty() { Val::Lit("svc".into()) } else { Val::Var(self.rng.pick(&strs).name.clone()) }
        } else {
            Val::Lit(format!("svc{}", self.rng.below(2)))
        };
        let shape = match kind.as_str() {
            "f" => Shape::Obj,
            "arr" => Shape::ArrStr,
            "arro" => Shape::ArrObj,
            "peers" => Shape::Peers,
            "peer" => Shape::PeerId,
            "str" => Shape::Str,
            "num" => Shape::Num,
            "idx" => Shape::Idx,
            "key" => Shape::Key,
            "errobj" => Shape::ErrObj,
            "empty" => Shape::Unknown,
            _ => Shape::Unknown,
        };
        let r = self.rng.below(10);
        let out = if let Some(o) = force_out {
            if let Out::Scalar(n) = &o {
                self.scope.push(VarInfo { name: n.clone(), shape });
            }
            o
        } else if kind == "e" || kind == "bad" {
            if r < 5 { Out::None } else { let n = self.fresh("x"); Out::Scalar(n) }
        } else if self.cfg.streams && r < 3 {
            self.has_streams = true;
            let s = self.pick_or_new_stream(&shape);
            Out::Stream(s)
        } else if r < 9 || !matches!(kind.as_str(), "f" | "arr" | "arro" | "str") {
            // results of the other kinds carry no call-site tag: they always get an output variable,
            // so that an output-less ("unused") result identifies its call site
            let n = self.fresh("x");
            self.scope.push(VarInfo { name: n.clone(), shape });
            Out::Scalar(n)
        } else {
            Out::None
        };
        Ins::Call { peer, service, func: Val::Lit(func), args, out }
    }

    fn pick_or_new_stream(&mut self, shape: &Shape) -> String {
        let same: Vec<String> = self.streams.iter().filter(|(n, s)| s == shape && !self.folding.contains(n)).map(|(n, _)| n.clone()).collect();
        if !same.is_empty() && self.rng.chance(3, 4) {
            return self.rng.pick(&same).clone();
        }
        let n = self.fresh("$s");
        self.streams.push((n.clone(), shape.clone()));
        n
    }

    fn gen_ins(&mut self, ctx: Ctx) -> Ins {
        if ctx.depth >= self.cfg.max_depth || self.budget <= 1 {
            return self.gen_leaf(ctx);
        }
        let c = &self.cfg;
        let arrays = self.vars_of(|s| matches!(s, Shape::ArrStr | Shape::ArrObj | Shape::Peers | Shape::Canon(_) | Shape::CanonMap));
        let w = [
            30,                                                   // 0 leaf
            22,                                                   // 1 seq
            12,                                                   // 2 par
            if c.errors { 10 } else { 0 },                        // 3 xor
            if c.folds { if arrays.is_empty() { 4 } else { 12 } } else { 0 }, // 4 fold scalar
            if c.streams && c.folds && !self.streams.is_empty() { 8 } else { 0 }, // 5 fold stream
            if c.news { 5 } else { 0 },                           // 6 new
            4,                                                    // 7 match/mismatch (safe or guarded)
            if c.maps && c.folds && !self.maps.is_empty() { 4 } else { 0 }, // 8 fold map
        ];
        let inner = Ctx { depth: ctx.depth + 1, ..ctx };
        match self.rng.weighted(&w) {
            0 => self.gen_leaf(ctx),
            1 => {
                self.budget -= 1;
                let a = self.gen_ins(inner);
                let b = self.gen_ins(inner);
                seq(a, b)
            }
            2 => {
                self.budget -= 1;
                let pctx = Ctx { guard: false, ..inner };
                let mark = self.scope.len();
                let a = self.gen_ins(pctx);
                // the right branch sees the left's definitions only sometimes (join behaviour)
                let hidden: Vec<VarInfo> = if !self.cfg.par_joins || self.rng.chance(1, 2) { self.scope.split_off(mark) } else { vec![] };
                let b = self.gen_ins(pctx);
                self.scope.extend(hidden);
                if !self.cfg.par_joins {
                    // a par is complete as soon as one branch is: what follows it may run before the
                    // other branch's variables exist, which is a join as well
                    self.scope.truncate(mark);
                }
                par(a, b)
            }
            3 => {
                self.budget -= 1;
                let mark = self.scope.len();
                let l = if self.rng.chance(1, 7) {
                    // the left branch forwards a call (in a par whose other side is complete) and then fails
                    // in the same run
                    let c = self.gen_call(Ctx { guard: false, ..inner }, Some("f"));
                    let n = self.id();
                    seq(par(c, Ins::Null), Ins::Fail(FailBody::Lit(1 + self.rng.below(900) as i64, format!("fail{n}"))))
                } else {
                    self.gen_ins(Ctx { guard: true, ..inner })
                };
                self.scope.truncate(mark);
                let r = self.gen_ins(Ctx { guard: false, in_catch: true, ..inner });
                self.scope.truncate(mark);
                xor(l, r)
            }
            4 => self.gen_fold_scalar(inner, arrays),
            5 => self.gen_fold_stream(inner),
            6 => self.gen_new(inner),
            7 => self.gen_match(inner),
            _ => self.gen_fold_map(inner),
        }
    }

    fn gen_leaf(&mut self, ctx: Ctx) -> Ins {
        let c = &self.cfg;
        let w = [
            60,                                                              // 0 call
            6,                                                               // 1 ap scalar
            if c.streams { 10 } else { 0 },                                  // 2 ap stream
            if c.canon && !self.streams.is_empty() { 10 } else { 0 },        // 3 canon
            if ctx.guard && c.errors { 6 } else { 0 },                       // 4 fail
            2,                                                               // 5 null
            if c.never && ctx.depth > 0 { 1 } else { 0 },                    // 6 never
            if c.maps { 6 } else { 0 },                                      // 7 ap map
            if c.maps && c.canon && !self.maps.is_empty() { 5 } else { 0 },  // 8 canon map
        ];
        match self.rng.weighted(&w) {
            0 => self.gen_call(ctx, None),
            1 => {
                self.budget -= 1;
                let mut arg = self.gen_arg(ctx, false);
                if matches!(&arg, Val::Var(n) if n.starts_with("#%")) {
                    // a canon map without a lens is not an ap argument
                    arg = Val::Int(self.rng.below(100) as i64);
                }
                let shape = match &arg {
                    Val::Var(n) => self.scope.iter().find(|v| &v.name == n).map(|v| v.shape.clone()).unwrap_or(Shape::Unknown),
                    Val::VarLens(n, l) => {
                        let b = self.scope.iter().find(|v| &v.name == n).map(|v| v.shape.clone()).unwrap_or(Shape::Unknown);
                        Self::lens_shape(&b, l)
                    }
                    Val::InitPeer => Shape::PeerId,
                    Val::Lit(_) => Shape::Str,
                    _ => Shape::Unknown,
                };
                let n = self.fresh("y");
                self.scope.push(VarInfo { name: n.clone(), shape });
                Ins::Ap { arg, out: Out::Scalar(n) }
            }
            2 => {
                self.budget -= 1;
                self.has_streams = true;
                // literals appended to streams are unique; variables keep their shape
                let (arg, shape) = if self.rng.chance(1, 2) || self.scope.is_empty() {
                    let n = self.id();
                    (Val::Lit(format!("ap{n}")), Shape::Str)
                } else {
                    // a canon map without a lens is not an ap argument
                    let cands: Vec<VarInfo> = self.scope.iter().filter(|v| v.shape != Shape::CanonMap).cloned().collect();
                    if cands.is_empty() {
                        let n = self.id();
                        (Val::Lit(format!("ap{n}")), Shape::Str)
                    } else {
                        let v = self.rng.pick(&cands).clone();
                        (Val::Var(v.name), v.shape)
                    }
                };
                let s = self.pick_or_new_stream(&shape);
                Ins::Ap { arg, out: Out::Stream(s) }
            }
            3 => {
                self.budget -= 1;
                let (s, shape) = self.rng.pick(&self.streams).clone();
                let peer = self.gen_peer_target(ctx);
                let n = self.fresh("#can");
                self.scope.push(VarInfo { name: n.clone(), shape: Shape::Canon(Box::new(shape)) });
                Ins::Canon { peer, src: s, dst: n }
            }
            4 => {
                self.budget -= 1;
                let errobjs = self.vars_of(|s| *s == Shape::ErrObj);
                match self.rng.below(4) {
                    0 if !errobjs.is_empty() => Ins::Fail(FailBody::Val(Val::Var(self.rng.pick(&errobjs).name.clone()))),
                    1 if ctx.in_catch => Ins::Fail(FailBody::Val(Val::Error(None))),
                    2 if ctx.in_catch => Ins::Fail(FailBody::Val(Val::LastError(None))),
                    _ => {
                        let n = self.id();
                        Ins::Fail(FailBody::Lit(1 + self.rng.below(900) as i64, format!("fail{n}")))
                    }
                }
            }
            5 => {
                self.budget -= 1;
                Ins::Null
            }
            6 => {
                self.budget -= 1;
                Ins::Never
            }
            7 => {
                self.budget -= 1;
                self.has_streams = true;
                let free: Vec<String> = self.maps.iter().filter(|m| !self.folding.contains(m)).cloned().collect();
                let m = if !free.is_empty() && self.rng.chance(3, 4) {
                    self.rng.pick(&free).clone()
                } else {
                    let n = self.fresh("%m");
                    self.maps.push(n.clone());
                    n
                };
                let keyvars = self.vars_of(|s| matches!(s, Shape::Str | Shape::Key | Shape::Num | Shape::Idx));
                let key = match self.rng.below(5) {
                    0 => Val::Int(self.rng.below(3) as i64),
                    // a string key with the text of a number key: both name one field of the map's JSON form
                    4 => Val::Lit(format!("{}", self.rng.below(3))),
                    1 if !keyvars.is_empty() => Val::Var(self.rng.pick(&keyvars).name.clone()),
                    _ => Val::Lit(format!("k{}", self.rng.below(3))),
                };
                let value = if self.rng.chance(1, 2) || self.scope.is_empty() {
                    let n = self.id();
                    Val::Lit(format!("mv{n}"))
                } else {
                    let cands: Vec<VarInfo> = self.scope.iter().filter(|v| v.shape != Shape::CanonMap).cloned().collect();
                    if cands.is_empty() {
                        let n = self.id();
                        Val::Lit(format!("mv{n}"))
                    } else {
                        Val::Var(self.rng.pick(&cands).name.clone())
                    }
                };
                Ins::ApMap { key, value, map: m }
            }
            _ => {
                self.budget -= 1;
                let m = self.rng.pick(&self.maps).clone();
                let peer = self.gen_peer_target(ctx);
                if self.rng.chance(2, 3) {
                    let n = self.fresh("#%cm");
                    self.scope.push(VarInfo { name: n.clone(), shape: Shape::CanonMap });
                    Ins::Canon { peer, src: m, dst: n }
                } else {
                    let n = self.fresh("ms");
                    self.scope.push(VarInfo { name: n.clone(), shape: Shape::Unknown });
                    Ins::Canon { peer, src: m, dst: n }
                }
            }
        }
    }

    fn elem_shape(s: &Shape) -> Shape {
        match s {
            Shape::ArrStr => Shape::Str,
            Shape::ArrObj => Shape::ElemObj,
            Shape::Peers => Shape::PeerId,
            Shape::Canon(inner) => (**inner).clone(),
            Shape::CanonMap => Shape::Kv,
            _ => Shape::Unknown,
        }
    }

    fn gen_fold_scalar(&mut self, ctx: Ctx, arrays: Vec<VarInfo>) -> Ins {
        let mut pre = None;
        let arr = if arrays.is_empty() || self.rng.chance(1, 5) {
            let k = *self.rng.pick(&["arr", "arro", "peers"]);
            let k = if k == "peers" && !self.cfg.var_targets { "arr" } else { k };
            let call = self.gen_call(Ctx { guard: false, ..ctx }, Some(k));
            let v = match &call {
                Ins::Call { out: Out::Scalar(n), .. } => self.scope.iter().find(|v| &v.name == n).cloned(),
                _ => None,
            };
            match v {
                Some(v) => {
                    pre = Some(call);
                    v
                }
                None => {
                    // output went to a stream or nowhere: just emit the call
                    return call;
                }
            }
        } else {
            self.rng.pick(&arrays).clone()
        };
        self.budget -= 2;
        let it = self.fresh("it");
        let mark = self.scope.len();
        self.scope.push(VarInfo { name: it.clone(), shape: Self::elem_shape(&arr.shape) });
        self.iters.push(it.clone());
        let body = self.gen_ins(ctx);
        let nx = Ins::Next(it.clone());
        let shape = self.rng.below(10);
        // a body generated as "may fail" must not end up under the fold's par
        let no_par = self.cfg.strict_guard && ctx.guard;
        // rollback shape (only where a failure leaving the fold is caught further up): every iteration
        // catches the failure of the deeper ones, compensates with a call that takes its own iterator,
        // and fails again
        if ctx.guard && self.cfg.errors && self.rng.chance(1, 3) {
            let undo = self.gen_call(Ctx { guard: false, ..ctx }, Some("f"));
            self.iters.pop();
            self.scope.truncate(mark);
            // make a later iteration fail (elements of `arro` arrays carry their index), so that the failure
            // travels back through the `next` of the earlier iterations
            let body = if arr.shape == Shape::ArrObj {
                let k = 1 + self.rng.below(2) as i64;
                seq(body, Ins::Mismatch(Val::VarLens(it.clone(), Lens::Path(vec![Acc::Field("i".into())])), Val::Int(k), Box::new(Ins::Null)))
            } else {
                body
            };
            let rollback = xor(seq(body, nx), seq(undo, Ins::Fail(FailBody::Val(Val::LastError(None)))));
            let f = Ins::Fold { iterable: Val::Var(arr.name), it, body: Box::new(rollback), last: None };
            return match pre {
                Some(p) => seq(p, f),
                None => f,
            };
        }
        // the recursion sits inside a `new` scope of a stream (or stream map) and the same name is written
        // after the scope: the scopes of the outer iterations are still open at the first global write
        // (never a stream that an enclosing fold iterates: the write after the scope would feed that fold with
        // equal values in every iteration, unbounded recursion up to the stream size limit)
        let free_streams: Vec<(String, Shape)> = self.streams.iter().filter(|(n, _)| !self.folding.contains(n)).cloned().collect();
        let free_maps: Vec<String> = self.maps.iter().filter(|n| !self.folding.contains(*n)).cloned().collect();
        if self.cfg.streams && !free_streams.is_empty() && self.rng.chance(1, 10) {
            let (s, _) = self.rng.pick(&free_streams).clone();
            let inner = Ins::Ap { arg: Val::Lit("scoped".into()), out: Out::Stream(s.clone()) };
            let after = Ins::Ap { arg: Val::Var(it.clone()), out: Out::Stream(s.clone()) };
            self.iters.pop();
            self.scope.truncate(mark);
            let shaped = seq(Ins::New(s, Box::new(seq(seq(inner, body), nx))), after);
            let f = Ins::Fold { iterable: Val::Var(arr.name), it, body: Box::new(shaped), last: None };
            return match pre {
                Some(p) => seq(p, f),
                None => f,
            };
        }
        if self.cfg.maps && !free_maps.is_empty() && self.rng.chance(1, 12) {
            let m = self.rng.pick(&free_maps).clone();
            let inner = Ins::ApMap { key: Val::Lit("scoped".into()), value: Val::Int(1), map: m.clone() };
            let after = Ins::ApMap { key: Val::Lit("after".into()), value: Val::Var(it.clone()), map: m.clone() };
            self.iters.pop();
            self.scope.truncate(mark);
            let shaped = seq(Ins::New(m, Box::new(seq(seq(inner, body), nx))), after);
            let f = Ins::Fold { iterable: Val::Var(arr.name), it, body: Box::new(shaped), last: None };
            return match pre {
                Some(p) => seq(p, f),
                None => f,
            };
        }
        let shaped = match shape {
            0..=4 => seq(body, nx),
            5..=7 if no_par => seq(body, nx),
            5..=7 => par(body, nx),
            8 => seq(nx, body),
            _ if no_par => seq(nx, body),
            _ => par(nx, body),
        };
        self.iters.pop();
        self.scope.truncate(mark);
        let last = if self.rng.chance(1, 4) {
            let m = self.scope.len();
            let l = self.gen_leaf(Ctx { guard: false, ..ctx });
            self.scope.truncate(m);
            Some(Box::new(l))
        } else {
            None
        };
        let f = Ins::Fold { iterable: Val::Var(arr.name), it, body: Box::new(shaped), last };
        match pre {
            Some(p) => seq(p, f),
            None => f,
        }
    }

    fn gen_fold_stream(&mut self, ctx: Ctx) -> Ins {
        self.budget -= 2;
        let (s, shape) = self.rng.pick(&self.streams).clone();
        let it = self.fresh("it");
        let mark = self.scope.len();
        self.scope.push(VarInfo { name: it.clone(), shape: shape.clone() });
        self.iters.push(it.clone());
        // an enclosing fold over the same stream would re-run the seed append in each of its
        // iterations: unbounded recursion up to the stream size limit, at a cost cubic in it
        let nested_on_same = self.folding.contains(&s);
        self.folding.push(s.clone());
        // a catchable failure inside the body of a stream fold does not leave the fold (the interpreter
        // ends that generation's iterations and goes on), so the body may fail without an xor of its own
        let body_may_fail = self.cfg.errors && self.rng.chance(1, 3);
        let mut body = self.gen_ins(Ctx { guard: body_may_fail, ..ctx });
        self.folding.pop();
        if self.cfg.rec_streams && !nested_on_same && shape == Shape::Str && self.rng.chance(1, 3) {
            // bounded recursion: while visiting the unique seed value, append one more literal to
            // the iterated stream; the fold must then also visit the appended value
            let n = self.id();
            let lit = format!("rec{n}");
            let guarded = Ins::Xor(
                Box::new(Ins::Match(Val::Var(it.clone()), Val::Lit(format!("seed{n}")), Box::new(Ins::Ap { arg: Val::Lit(lit), out: Out::Stream(s.clone()) }))),
                Box::new(Ins::Null),
            );
            // make sure the seed value is in the stream
            body = seq(guarded, body);
            let seed = Ins::Ap { arg: Val::Lit(format!("seed{n}")), out: Out::Stream(s.clone()) };
            self.iters.pop();
            self.scope.truncate(mark);
            let nx = Ins::Next(it.clone());
            let shaped = if self.rng.chance(1, 2) { seq(body, nx) } else { par(body, nx) };
            let f = Ins::Fold { iterable: Val::Var(s), it, body: Box::new(shaped), last: None };
            return seq(seed, f);
        }
        self.iters.pop();
        self.scope.truncate(mark);
        let nx = Ins::Next(it.clone());
        let shaped = if self.rng.chance(1, 2) { seq(body, nx) } else { par(body, nx) };
        // last instruction: none (the fold never completes), null, or a call that may take the iterator (it runs
        // where the iteration chain of a generation ends)
        let last = match self.rng.below(6) {
            0 | 1 => Some(Box::new(Ins::Null)),
            2 if self.budget > 0 => {
                self.scope.push(VarInfo { name: it.clone(), shape: shape.clone() });
                self.iters.push(it.clone());
                // the call must not write to the stream being folded (unbounded recursion)
                self.folding.push(s.clone());
                let c = self.gen_call(Ctx { guard: false, ..ctx }, Some("f"));
                self.folding.pop();
                self.iters.pop();
                self.scope.truncate(mark);
                Some(Box::new(c))
            }
            _ => None,
        };
        Ins::Fold { iterable: Val::Var(s), it, body: Box::new(shaped), last }
    }

    fn gen_fold_map(&mut self, ctx: Ctx) -> Ins {
        self.budget -= 2;
        let m = self.rng.pick(&self.maps).clone();
        let it = self.fresh("it");
        let mark = self.scope.len();
        self.scope.push(VarInfo { name: it.clone(), shape: Shape::Kv });
        self.iters.push(it.clone());
        self.folding.push(m.clone());
        let body = self.gen_ins(Ctx { guard: false, ..ctx });
        self.folding.pop();
        self.iters.pop();
        self.scope.truncate(mark);
        let nx = Ins::Next(it.clone());
        let shaped = if self.rng.chance(1, 2) { seq(body, nx) } else { par(body, nx) };
        let last = if self.rng.chance(1, 3) { Some(Box::new(Ins::Null)) } else { None };
        Ins::Fold { iterable: Val::Var(m), it, body: Box::new(shaped), last }
    }

    fn gen_new(&mut self, ctx: Ctx) -> Ins {
        self.budget -= 1;
        let r = self.rng.below(10);
        if self.cfg.streams && r < 5 {
            // new-scoped stream: a fresh name or a shadow of an existing stream
            let name = if !self.streams.is_empty() && self.rng.chance(1, 2) {
                self.rng.pick(&self.streams).0.clone()
            } else {
                let n = self.fresh("$s");
                self.streams.push((n.clone(), Shape::Str));
                n
            };
            let mark = self.scope.len();
            let body = self.gen_ins(ctx);
            // canon results defined inside stay visible textually, but we hide them: values of a
            // scoped stream should not leak
            self.scope.truncate(mark);
            Ins::New(name, Box::new(body))
        } else if self.cfg.maps && r < 6 && !self.maps.is_empty() {
            let name = self.rng.pick(&self.maps).clone();
            let mark = self.scope.len();
            let body = self.gen_ins(ctx);
            self.scope.truncate(mark);
            Ins::New(name, Box::new(body))
        } else {
            // scalar: shadow an existing non-iterator scalar or a fresh name
            let cands: Vec<VarInfo> = self.scope.iter().filter(|v| !v.name.starts_with("it") && !v.name.starts_with('#')).cloned().collect();
            let name = if !cands.is_empty() && self.rng.chance(2, 3) { self.rng.pick(&cands).name.clone() } else { self.fresh("n") };
            let mark = self.scope.len();
            // inside, the shadowed name is undefined until redefined: hide it
            // the shadowed entry is put back at its original index afterwards (enclosing constructs
            // truncate the scope by length, so the order must not change)
            let saved: Vec<(usize, VarInfo)> = self.scope.iter().enumerate().filter(|(_, v)| v.name == name).map(|(i, v)| (i, v.clone())).collect();
            self.scope.retain(|v| v.name != name);
            let mark2 = self.scope.len();
            // redefine it first
            let call = self.gen_call_out(Ctx { guard: false, ..ctx }, Some("f"), Some(Out::Scalar(name.clone())));
            let rest = self.gen_ins(ctx);
            self.scope.truncate(mark2.min(mark));
            for (i, v) in saved {
                let at = i.min(self.scope.len());
                self.scope.insert(at, v);
            }
            Ins::New(name, Box::new(seq(call, rest)))
        }
    }

    fn gen_match(&mut self, ctx: Ctx) -> Ins {
        self.budget -= 1;
        let mark = self.scope.len();
        let body = self.gen_ins(ctx);
        self.scope.truncate(mark);
        let safe = !(ctx.guard && self.cfg.errors);
        let v = if self.scope.is_empty() { Val::Int(1) } else { Val::Var(self.rng.pick(&self.scope).name.clone()) };
        if safe {
            // always-true comparisons
            match self.rng.below(3) {
                0 => Ins::Match(v.clone(), v, Box::new(body)),
                1 => Ins::Mismatch(Val::Lit("a".into()), Val::Lit("b".into()), Box::new(body)),
                _ => Ins::Match(Val::Int(3), Val::Int(3), Box::new(body)),
            }
        } else {
            let other = self.gen_arg(ctx, false);
            match self.rng.below(4) {
                0 => Ins::Match(v, other, Box::new(body)),
                1 => Ins::Mismatch(v, other, Box::new(body)),
                2 => Ins::Mismatch(v.clone(), v, Box::new(body)),
                _ => Ins::Match(Val::Int(1), Val::Int(2), Box::new(body)),
            }
        }
    }
}

pub fn generate(rng: &mut Rng, cfg: &GenCfg, peer_ids: &[String]) -> Script {
    Gen::new(rng, cfg.clone(), peer_ids.to_vec()).script()
}
