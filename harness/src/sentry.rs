//! Crash isolation: worker subprocesses that announce each case before running it, so that a
//! death (abort, fatal signal, stack overflow, allocator cap) is attributed to the right case.
use crate::invoke::*;
use serde_json::{json, Value};
use std::io::{BufRead, BufReader, Write};
use std::os::unix::process::ExitStatusExt;
use std::path::Path;
use std::process::{Child, Command, Stdio};
use std::sync::atomic::{AtomicUsize, Ordering};
use std::sync::Mutex;
use std::time::{Duration, Instant};

#[derive(Clone, Debug)]
pub enum CaseResult {
    /// the worker's reply
    Done(Value),
    /// the worker process died while running the case
    Died { signal: Option<i32>, code: Option<i32>, stderr_tail: String },
    /// wall-clock watchdog fired (inconclusive by itself)
    Timeout,
    /// harness-level failure (could not spawn, protocol error)
    Harness(String),
}

/// Run one closed batch in a fresh process: `vcheck reexec` reads inputs on stdin, prints digests.
pub fn reexec_in_fresh_process(exe: &Path, inputs: &[&RunInput]) -> Result<Vec<String>, String> {
    let mut child = Command::new(exe).arg("reexec").stdin(Stdio::piped()).stdout(Stdio::piped()).stderr(Stdio::null()).spawn().map_err(|e| e.to_string())?;
    {
        let mut stdin = child.stdin.take().ok_or("no stdin")?;
        let body = serde_json::to_string(inputs).map_err(|e| e.to_string())?;
        stdin.write_all(body.as_bytes()).map_err(|e| e.to_string())?;
    }
    let out = child.wait_with_output().map_err(|e| e.to_string())?;
    if !out.status.success() {
        return Err(format!("reexec worker exited with {:?}", out.status));
    }
    serde_json::from_slice::<Vec<String>>(&out.stdout).map_err(|e| e.to_string())
}

pub fn reexec_main() {
    let mut body = String::new();
    use std::io::Read;
    std::io::stdin().read_to_string(&mut body).ok();
    let inputs: Vec<RunInput> = serde_json::from_str(&body).unwrap_or_default();
    let h = std::thread::Builder::new()
        .stack_size(crate::report::STACK)
        .spawn(move || inputs.iter().map(|i| crate::mon::c20::outcome_digest(&invoke(i))).collect::<Vec<String>>())
        .unwrap();
    let digests = h.join().unwrap_or_default();
    println!("{}", serde_json::to_string(&digests).unwrap());
}

struct Worker {
    child: Child,
    stdin: std::process::ChildStdin,
    stdout: BufReader<std::process::ChildStdout>,
    stderr_path: String,
}

/// Markers of a sanitizer report in a worker's stderr (ASan, valgrind with --error-markers).
pub const SAN_MARKERS: [&str; 3] = ["AddressSanitizer", "VCHECK-VG-BEGIN", "runtime error:"];

fn spawn_worker(exe: &Path, idx: usize, scratch: &str, mem_cap: usize) -> Result<Worker, String> {
    let stderr_path = format!("{scratch}/worker-{}-{idx}.stderr", std::process::id());
    let f = std::fs::File::create(&stderr_path).map_err(|e| e.to_string())?;
    // `exe` may be a launcher line: "valgrind -q ... /path/vcheck" (split on spaces)
    let exe_text = exe.to_string_lossy().to_string();
    let mut parts = exe_text.split(' ').filter(|p| !p.is_empty());
    let program = parts.next().unwrap_or("");
    let pre: Vec<&str> = parts.collect();
    let mut child = Command::new(program)
        .args(pre)
        .arg("worker")
        .env("ASAN_OPTIONS", "detect_leaks=0:halt_on_error=1:abort_on_error=1:detect_stack_use_after_return=0")
        .env("VCHECK_MEM_CAP", mem_cap.to_string())
        .stdin(Stdio::piped())
        .stdout(Stdio::piped())
        .stderr(Stdio::from(f))
        .spawn()
        .map_err(|e| e.to_string())?;
    let stdin = child.stdin.take().ok_or("no stdin")?;
    let stdout = BufReader::new(child.stdout.take().ok_or("no stdout")?);
    Ok(Worker { child, stdin, stdout, stderr_path })
}

fn tail(path: &str, n: usize) -> String {
    let s = std::fs::read(path).unwrap_or_default();
    let s = String::from_utf8_lossy(&s);
    let start = s.len().saturating_sub(n);
    let mut st = start;
    while !s.is_char_boundary(st) {
        st += 1;
    }
    s[st..].to_string()
}

/// Run all cases on `n_workers` worker processes. Each case is a JSON object the worker
/// understands (see `worker_main`). Results are returned in case order.
pub fn run_isolated(exe: &Path, cases: &[Value], n_workers: usize, scratch: &str, mem_cap: usize, timeout: Duration) -> Vec<CaseResult> {
    let _ = std::fs::create_dir_all(scratch);
    let next = AtomicUsize::new(0);
    let results: Mutex<Vec<Option<CaseResult>>> = Mutex::new(vec![None; cases.len()]);
    std::thread::scope(|s| {
        for widx in 0..n_workers.max(1) {
            let next = &next;
            let results = &results;
            s.spawn(move || {
                let mut worker: Option<Worker> = None;
                loop {
                    let k = next.fetch_add(1, Ordering::Relaxed);
                    if k >= cases.len() {
                        break;
                    }
                    if worker.is_none() {
                        match spawn_worker(exe, widx, scratch, mem_cap) {
                            Ok(w) => worker = Some(w),
                            Err(e) => {
                                results.lock().unwrap()[k] = Some(CaseResult::Harness(format!("spawn: {e}")));
                                continue;
                            }
                        }
                    }
                    let w = worker.as_mut().unwrap();
                    // truncate the stderr file so the tail belongs to this case
                    let _ = std::fs::File::create(&w.stderr_path);
                    let line = serde_json::to_string(&cases[k]).unwrap();
                    let sent = w.stdin.write_all(line.as_bytes()).and_then(|_| w.stdin.write_all(b"\n")).and_then(|_| w.stdin.flush());
                    let res = if sent.is_err() {
                        reap(w)
                    } else {
                        read_reply(w, timeout)
                    };
                    let dead = !matches!(res, CaseResult::Done(_));
                    // a sanitizer that keeps going (valgrind) reports on stderr while the case completes
                    let res = match res {
                        CaseResult::Done(mut v) => {
                            let t = tail(&w.stderr_path, 6000);
                            if SAN_MARKERS.iter().any(|m| t.contains(m)) {
                                v["sanitizer_report"] = json!(t);
                            }
                            CaseResult::Done(v)
                        }
                        other => other,
                    };
                    results.lock().unwrap()[k] = Some(res);
                    if dead {
                        if let Some(mut w) = worker.take() {
                            let _ = w.child.kill();
                            let _ = w.child.wait();
                            let _ = std::fs::remove_file(&w.stderr_path);
                        }
                    }
                }
                if let Some(mut w) = worker.take() {
                    drop(w.stdin);
                    let _ = w.child.wait();
                    let _ = std::fs::remove_file(&w.stderr_path);
                }
            });
        }
    });
    results.into_inner().unwrap().into_iter().map(|r| r.unwrap_or(CaseResult::Harness("no result".into()))).collect()
}

fn reap(w: &mut Worker) -> CaseResult {
    // the process should be dead or dying: collect its status
    let deadline = Instant::now() + Duration::from_secs(10);
    loop {
        match w.child.try_wait() {
            Ok(Some(status)) => {
                return CaseResult::Died { signal: status.signal(), code: status.code(), stderr_tail: tail(&w.stderr_path, 1500) };
            }
            Ok(None) => {
                if Instant::now() > deadline {
                    let _ = w.child.kill();
                    return CaseResult::Harness("worker closed its pipe but did not exit".into());
                }
                std::thread::sleep(Duration::from_millis(5));
            }
            Err(e) => return CaseResult::Harness(format!("wait: {e}")),
        }
    }
}

fn read_reply(w: &mut Worker, timeout: Duration) -> CaseResult {
    // blocking read with a watchdog thread that kills the child on timeout
    let pid = w.child.id() as i32;
    let done = std::sync::Arc::new(std::sync::atomic::AtomicBool::new(false));
    let fired = std::sync::Arc::new(std::sync::atomic::AtomicBool::new(false));
    let (d2, f2) = (done.clone(), fired.clone());
    let watchdog = std::thread::spawn(move || {
        let start = Instant::now();
        while !d2.load(Ordering::Relaxed) {
            if start.elapsed() > timeout {
                f2.store(true, Ordering::Relaxed);
                unsafe {
                    libc::kill(pid, libc::SIGKILL);
                }
                break;
            }
            std::thread::sleep(Duration::from_millis(20));
        }
    });
    let mut line = String::new();
    let r = w.stdout.read_line(&mut line);
    done.store(true, Ordering::Relaxed);
    let _ = watchdog.join();
    if fired.load(Ordering::Relaxed) {
        return CaseResult::Timeout;
    }
    match r {
        Ok(0) | Err(_) => reap(w),
        Ok(_) => match serde_json::from_str::<Value>(&line) {
            Ok(v) => CaseResult::Done(v),
            Err(e) => CaseResult::Harness(format!("bad reply: {e}: {}", crate::proj::trunc(&line, 200))),
        },
    }
}

/// Worker loop: one JSON case per line on stdin, one JSON reply per line on stdout.
pub fn worker_main() {
    let cap: usize = std::env::var("VCHECK_MEM_CAP").ok().and_then(|s| s.parse().ok()).unwrap_or(0);
    crate::alloc::CAP.store(cap, Ordering::Relaxed);
    let stdin = std::io::stdin();
    let mut out = std::io::stdout();
    for line in stdin.lock().lines() {
        let line = match line {
            Ok(l) => l,
            Err(_) => break,
        };
        let case: Value = match serde_json::from_str(&line) {
            Ok(v) => v,
            Err(e) => {
                let _ = writeln!(out, "{}", json!({"harness_error": e.to_string()}));
                let _ = out.flush();
                continue;
            }
        };
        // every case runs on its own 8 MiB thread (production stack size)
        let h = std::thread::Builder::new().stack_size(crate::report::STACK).spawn(move || crate::mon::c01::worker_case(&case)).unwrap();
        let reply = match h.join() {
            Ok(v) => v,
            Err(_) => json!({"harness_error": "worker thread panicked outside the guarded region"}),
        };
        let _ = writeln!(out, "{}", serde_json::to_string(&reply).unwrap());
        let _ = out.flush();
    }
}
