//! Deterministic PRNG (SplitMix64-seeded xoshiro256**). Every random choice of every workload
//! derives from VERIF_SEED through this type.
#[derive(Clone, Debug)]
pub struct Rng {
    s: [u64; 4],
}

fn splitmix(x: &mut u64) -> u64 {
    *x = x.wrapping_add(0x9E3779B97F4A7C15);
    let mut z = *x;
    z = (z ^ (z >> 30)).wrapping_mul(0xBF58476D1CE4E5B9);
    z = (z ^ (z >> 27)).wrapping_mul(0x94D049BB133111EB);
    z ^ (z >> 31)
}

impl Rng {
    pub fn new(seed: u64) -> Self {
        let mut x = seed;
        let s = [splitmix(&mut x), splitmix(&mut x), splitmix(&mut x), splitmix(&mut x)];
        Rng { s }
    }
    /// Independent stream for a sub-task: mixes a label into the seed.
    pub fn derive(seed: u64, a: u64, b: u64) -> Self {
        let mut x = seed ^ a.wrapping_mul(0xD6E8FEB86659FD93) ^ b.rotate_left(32).wrapping_mul(0xA0761D6478BD642F);
        let _ = splitmix(&mut x);
        Rng::new(x)
    }
    pub fn next_u64(&mut self) -> u64 {
        let r = self.s[1].wrapping_mul(5).rotate_left(7).wrapping_mul(9);
        let t = self.s[1] << 17;
        self.s[2] ^= self.s[0];
        self.s[3] ^= self.s[1];
        self.s[1] ^= self.s[2];
        self.s[0] ^= self.s[3];
        self.s[2] ^= t;
        self.s[3] = self.s[3].rotate_left(45);
        r
    }
    pub fn below(&mut self, n: usize) -> usize {
        if n == 0 {
            return 0;
        }
        (self.next_u64() % n as u64) as usize
    }
    pub fn range(&mut self, lo: usize, hi_incl: usize) -> usize {
        lo + self.below(hi_incl - lo + 1)
    }
    pub fn chance(&mut self, num: u32, den: u32) -> bool {
        (self.next_u64() % den as u64) < num as u64
    }
    pub fn pick<'a, T>(&mut self, v: &'a [T]) -> &'a T {
        &v[self.below(v.len())]
    }
    pub fn shuffle<T>(&mut self, v: &mut [T]) {
        for i in (1..v.len()).rev() {
            let j = self.below(i + 1);
            v.swap(i, j);
        }
    }
    /// weighted choice: returns index
    pub fn weighted(&mut self, w: &[u32]) -> usize {
        let tot: u64 = w.iter().map(|x| *x as u64).sum();
        if tot == 0 {
            return 0;
        }
        let mut r = self.next_u64() % tot;
        for (i, x) in w.iter().enumerate() {
            if r < *x as u64 {
                return i;
            }
            r -= *x as u64;
        }
        w.len() - 1
    }
    pub fn bytes(&mut self, n: usize) -> Vec<u8> {
        (0..n).map(|_| self.next_u64() as u8).collect()
    }
}

pub fn fnv(data: &[u8]) -> u64 {
    let mut h: u64 = 0xcbf29ce484222325;
    for b in data {
        h ^= *b as u64;
        h = h.wrapping_mul(0x100000001b3);
    }
    h
}
