//! Counting allocator: live bytes, peak live bytes and the largest single request, with a hard
//! cap. Only atomic counters are kept (no address tracking), so it hides nothing from ASan or
//! memcheck builds, where it is compiled out with `--cfg vcheck_no_alloc_monitor`.
use std::alloc::{GlobalAlloc, Layout, System};
use std::sync::atomic::{AtomicUsize, Ordering};

pub struct Counting;

pub static LIVE: AtomicUsize = AtomicUsize::new(0);
pub static PEAK: AtomicUsize = AtomicUsize::new(0);
pub static LARGEST: AtomicUsize = AtomicUsize::new(0);
/// 0 = no cap
pub static CAP: AtomicUsize = AtomicUsize::new(0);

unsafe impl GlobalAlloc for Counting {
    unsafe fn alloc(&self, l: Layout) -> *mut u8 {
        let sz = l.size();
        let cap = CAP.load(Ordering::Relaxed);
        if cap != 0 && (sz > cap || LIVE.load(Ordering::Relaxed).saturating_add(sz) > cap) {
            // deliberate abort: the parent classifies it from this marker
            let msg = b"\nVCHECK-ALLOC-CAP-EXCEEDED\n";
            libc::write(2, msg.as_ptr() as *const libc::c_void, msg.len());
            let s = format_usize(sz);
            libc::write(2, s.0.as_ptr() as *const libc::c_void, s.1);
            libc::write(2, b"\n".as_ptr() as *const libc::c_void, 1);
            libc::abort();
        }
        let p = System.alloc(l);
        if !p.is_null() {
            let live = LIVE.fetch_add(sz, Ordering::Relaxed) + sz;
            PEAK.fetch_max(live, Ordering::Relaxed);
            LARGEST.fetch_max(sz, Ordering::Relaxed);
        }
        p
    }
    unsafe fn dealloc(&self, p: *mut u8, l: Layout) {
        LIVE.fetch_sub(l.size(), Ordering::Relaxed);
        System.dealloc(p, l)
    }
    unsafe fn realloc(&self, p: *mut u8, l: Layout, new_size: usize) -> *mut u8 {
        let cap = CAP.load(Ordering::Relaxed);
        if cap != 0 && new_size > l.size() && (new_size > cap || LIVE.load(Ordering::Relaxed).saturating_add(new_size - l.size()) > cap) {
            let msg = b"\nVCHECK-ALLOC-CAP-EXCEEDED\n";
            libc::write(2, msg.as_ptr() as *const libc::c_void, msg.len());
            libc::abort();
        }
        let q = System.realloc(p, l, new_size);
        if !q.is_null() {
            if new_size >= l.size() {
                let live = LIVE.fetch_add(new_size - l.size(), Ordering::Relaxed) + (new_size - l.size());
                PEAK.fetch_max(live, Ordering::Relaxed);
                LARGEST.fetch_max(new_size, Ordering::Relaxed);
            } else {
                LIVE.fetch_sub(l.size() - new_size, Ordering::Relaxed);
            }
        }
        q
    }
}

fn format_usize(mut v: usize) -> ([u8; 24], usize) {
    let mut buf = [0u8; 24];
    let mut tmp = [0u8; 24];
    let mut n = 0;
    if v == 0 {
        tmp[0] = b'0';
        n = 1;
    }
    while v > 0 {
        tmp[n] = b'0' + (v % 10) as u8;
        v /= 10;
        n += 1;
    }
    for i in 0..n {
        buf[i] = tmp[n - 1 - i];
    }
    (buf, n)
}

/// start measuring a case: returns the baseline of live bytes
pub fn begin_case() -> usize {
    let live = LIVE.load(Ordering::Relaxed);
    PEAK.store(live, Ordering::Relaxed);
    LARGEST.store(0, Ordering::Relaxed);
    live
}

/// (peak live bytes above the baseline, largest single request)
pub fn end_case(baseline: usize) -> (usize, usize) {
    (PEAK.load(Ordering::Relaxed).saturating_sub(baseline), LARGEST.load(Ordering::Relaxed))
}
