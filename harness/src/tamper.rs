//! The attacker: JSON-level rewriting of decoded interpreter data, bottom-up repair of the CID
//! stores and re-signing of the attacker's own results (the attacker is a participant with its
//! own key, it cannot sign for anybody else).
use crate::keys::Peer;
use crate::oracle::cidv::cid_of_bytes;
use crate::oracle::verify::{canonical_text, sign};
use crate::proj::{self, St};
use crate::rng::Rng;
use serde_json::{json, Map, Value};
use std::collections::BTreeMap;

pub const BOUNDARY: [u64; 12] = [0, 1, 2, 3, 7, 1000, 0x7fff_ffff, 0x8000_0000, 0xCAFE_BABE, 0xffff_fffe, 0xffff_ffff, 400_000_000];

fn store_mut<'a>(data: &'a mut Value, name: &str) -> &'a mut Map<String, Value> {
    data.get_mut("cid_info").and_then(|c| c.get_mut(name)).and_then(|s| s.as_object_mut()).expect("store")
}

fn remap(v: &mut Value, key: &str, m: &BTreeMap<String, String>) {
    if let Some(x) = v.get_mut(key) {
        if let Some(s) = x.as_str() {
            if let Some(n) = m.get(s) {
                *x = Value::String(n.clone());
            }
        }
    }
}

/// Recompute every store item's id bottom-up and rewrite all references (stores and trace).
pub fn repair(data: &mut Value) {
    let mut map_v: BTreeMap<String, String> = BTreeMap::new();
    let mut map_t: BTreeMap<String, String> = BTreeMap::new();
    let mut map_sr: BTreeMap<String, String> = BTreeMap::new();
    // values
    let old: Vec<(String, Value)> = store_mut(data, "value_store").iter().map(|(k, v)| (k.clone(), v.clone())).collect();
    let vs = store_mut(data, "value_store");
    vs.clear();
    for (k, v) in old {
        let n = v.as_str().map(|s| cid_of_bytes(s.as_bytes())).unwrap_or_else(|| k.clone());
        map_v.insert(k, n.clone());
        vs.insert(n, v);
    }
    // tetraplets
    let old: Vec<(String, Value)> = store_mut(data, "tetraplet_store").iter().map(|(k, v)| (k.clone(), v.clone())).collect();
    let ts = store_mut(data, "tetraplet_store");
    ts.clear();
    for (k, v) in old {
        let n = canonical_text("tetraplet_store", &v).map(|t| cid_of_bytes(t.as_bytes())).unwrap_or_else(|| k.clone());
        map_t.insert(k, n.clone());
        ts.insert(n, v);
    }
    // service results
    let old: Vec<(String, Value)> = store_mut(data, "service_result_store").iter().map(|(k, v)| (k.clone(), v.clone())).collect();
    let ss = store_mut(data, "service_result_store");
    ss.clear();
    for (k, mut v) in old {
        remap(&mut v, "value_cid", &map_v);
        remap(&mut v, "tetraplet_cid", &map_t);
        let n = canonical_text("service_result_store", &v).map(|t| cid_of_bytes(t.as_bytes())).unwrap_or_else(|| k.clone());
        map_sr.insert(k, n.clone());
        ss.insert(n, v);
    }
    // canon elements and results; canon-of-canon provenance needs more than one round
    let mut map_cr: BTreeMap<String, String> = BTreeMap::new(); // original id -> current id
    let mut prev_round_cr: BTreeMap<String, String> = BTreeMap::new();
    let empty: BTreeMap<String, String> = BTreeMap::new();
    for round in 0..4 {
        let (mv, mt, ms) = if round == 0 { (&map_v, &map_t, &map_sr) } else { (&empty, &empty, &empty) };
        let old: Vec<(String, Value)> = store_mut(data, "canon_element_store").iter().map(|(k, v)| (k.clone(), v.clone())).collect();
        let mut round_ce = BTreeMap::new();
        let mut new_items = vec![];
        for (k, mut v) in old {
            remap(&mut v, "value", mv);
            remap(&mut v, "tetraplet", mt);
            if let Some(p) = v.get_mut("provenance") {
                match p.get("type").and_then(|t| t.as_str()) {
                    Some("service_result") => remap(p, "cid", ms),
                    Some("canon") => remap(p, "cid", &prev_round_cr),
                    _ => {}
                }
            }
            let n = canonical_text("canon_element_store", &v).map(|t| cid_of_bytes(t.as_bytes())).unwrap_or_else(|| k.clone());
            round_ce.insert(k, n.clone());
            new_items.push((n, v));
        }
        let es = store_mut(data, "canon_element_store");
        es.clear();
        es.extend(new_items);
        let old: Vec<(String, Value)> = store_mut(data, "canon_result_store").iter().map(|(k, v)| (k.clone(), v.clone())).collect();
        let mut round_cr = BTreeMap::new();
        let mut new_items = vec![];
        for (k, mut v) in old {
            remap(&mut v, "tetraplet", mt);
            if let Some(vals) = v.get_mut("values").and_then(|x| x.as_array_mut()) {
                for e in vals.iter_mut() {
                    if let Some(n) = e.as_str().and_then(|s| round_ce.get(s)) {
                        *e = Value::String(n.clone());
                    }
                }
            }
            let n = canonical_text("canon_result_store", &v).map(|t| cid_of_bytes(t.as_bytes())).unwrap_or_else(|| k.clone());
            round_cr.insert(k, n.clone());
            new_items.push((n, v));
        }
        let cs = store_mut(data, "canon_result_store");
        cs.clear();
        cs.extend(new_items);
        if round == 0 {
            map_cr = round_cr.clone();
        } else {
            for v in map_cr.values_mut() {
                if let Some(n) = round_cr.get(v) {
                    *v = n.clone();
                }
            }
        }
        let changed = round_cr.iter().any(|(a, b)| a != b);
        prev_round_cr = round_cr;
        if !changed {
            break;
        }
    }
    // trace
    if let Some(tr) = data.get_mut("trace").and_then(|t| t.as_array_mut()) {
        for s in tr.iter_mut() {
            if let Some(c) = s.get_mut("call") {
                if let Some(e) = c.get_mut("executed") {
                    remap(e, "scalar", &map_sr);
                    if let Some(st) = e.get_mut("stream") {
                        remap(st, "cid", &map_sr);
                    }
                }
                remap(c, "failed", &map_sr);
            }
            if let Some(c) = s.get_mut("canon") {
                remap(c, "executed", &map_cr);
            }
        }
    }
}

/// ids of call/canon results in the trace attributed to `peer_id`
pub fn cids_of_peer(data: &Value, peer_id: &str) -> Vec<String> {
    let mut out = vec![];
    for s in proj::states(data) {
        match s {
            St::CallExec { kind, cid, .. } if kind != "unused" => {
                if proj::service_result(data, &cid).and_then(|(_, t, _)| t.get("peer_pk").and_then(|x| x.as_str()).map(|p| p == peer_id)).unwrap_or(false) {
                    out.push(cid);
                }
            }
            St::CallFailed(cid) => {
                if proj::service_result(data, &cid).and_then(|(_, t, _)| t.get("peer_pk").and_then(|x| x.as_str()).map(|p| p == peer_id)).unwrap_or(false) {
                    out.push(cid);
                }
            }
            St::CanonExec(cid) => {
                if proj::canon_result(data, &cid).and_then(|(t, _)| t.get("peer_pk").and_then(|x| x.as_str()).map(|p| p == peer_id)).unwrap_or(false) {
                    out.push(cid);
                }
            }
            _ => {}
        }
    }
    out
}

/// Replace the attacker's signature by one over exactly the results attributed to it now.
pub fn resign(data: &mut Value, attacker: &Peer, particle_id: &str) {
    let cids = cids_of_peer(data, &attacker.id);
    let sig = sign(&attacker.signing, &cids, particle_id);
    if let Some(s) = data.get_mut("signatures").and_then(|s| s.as_object_mut()) {
        s.insert(attacker.pk_b58.clone(), Value::String(sig));
    }
}

fn pick_cid(rng: &mut Rng, data: &Value, store: &str) -> Option<String> {
    let keys: Vec<String> = proj::store(data, store).keys().cloned().collect();
    if keys.is_empty() {
        None
    } else {
        Some(rng.pick(&keys).clone())
    }
}

fn boundary(rng: &mut Rng, len: usize) -> u64 {
    let mut b: Vec<u64> = BOUNDARY.to_vec();
    b.extend([len as u64, (len as u64).saturating_sub(1), len as u64 + 1]);
    *rng.pick(&b)
}

/// One structure-aware mutation; returns a short label, or None if not applicable.
pub fn mutate_structure(rng: &mut Rng, data: &mut Value, attacker_id: &str) -> Option<String> {
    let tlen = proj::trace(data).len();
    let kind = rng.below(24);
    let states = proj::states(data);
    let idx_of = |pred: &dyn Fn(&St) -> bool| -> Vec<usize> { states.iter().enumerate().filter(|(_, s)| pred(s)).map(|(i, _)| i).collect() };
    match kind {
        0 | 1 => {
            let pars = idx_of(&|s| matches!(s, St::Par(..)));
            let i = *pars.get(rng.below(pars.len().max(1)))?;
            let side = rng.below(2);
            let v = boundary(rng, tlen);
            data["trace"][i]["par"][side] = json!(v);
            Some(format!("par[{i}].{side}={v}"))
        }
        2 | 3 | 4 => {
            let folds = idx_of(&|s| matches!(s, St::Fold(l) if !l.is_empty()));
            let i = *folds.get(rng.below(folds.len().max(1)))?;
            let n = data["trace"][i]["fold"]["lore"].as_array()?.len();
            let k = rng.below(n);
            let v = boundary(rng, tlen);
            // an earlier operation of the same recipe may have shortened this descriptor list
            let n_desc = data["trace"][i]["fold"]["lore"][k]["desc"].as_array().map(|d| d.len()).unwrap_or(0);
            let op = rng.below(7);
            if (matches!(op, 1 | 2 | 5) && n_desc < 1) || (matches!(op, 3 | 4) && n_desc < 2) {
                return None;
            }
            match op {
                0 => data["trace"][i]["fold"]["lore"][k]["pos"] = json!(v),
                1 => data["trace"][i]["fold"]["lore"][k]["desc"][0]["pos"] = json!(v),
                2 => data["trace"][i]["fold"]["lore"][k]["desc"][0]["len"] = json!(v),
                3 => data["trace"][i]["fold"]["lore"][k]["desc"][1]["pos"] = json!(v),
                4 => data["trace"][i]["fold"]["lore"][k]["desc"][1]["len"] = json!(v),
                5 => {
                    let d = data["trace"][i]["fold"]["lore"][k]["desc"].as_array_mut()?;
                    if rng.chance(1, 2) {
                        d.pop();
                    } else {
                        let e = d[0].clone();
                        d.push(e);
                    }
                }
                _ => {
                    let e = data["trace"][i]["fold"]["lore"][k].clone();
                    data["trace"][i]["fold"]["lore"].as_array_mut()?.push(e);
                }
            }
            Some(format!("fold[{i}].lore[{k}]~{v}"))
        }
        5 => {
            let aps = idx_of(&|s| matches!(s, St::Ap(..)));
            let i = *aps.get(rng.below(aps.len().max(1)))?;
            let v = boundary(rng, tlen);
            data["trace"][i]["ap"]["gens"] = match rng.below(3) {
                0 => json!([]),
                1 => json!([v, v]),
                _ => json!([v]),
            };
            Some(format!("ap[{i}].gens~{v}"))
        }
        6 | 7 => {
            let ss = idx_of(&|s| matches!(s, St::CallExec { kind: "stream", .. }));
            let i = *ss.get(rng.below(ss.len().max(1)))?;
            let v = boundary(rng, tlen);
            data["trace"][i]["call"]["executed"]["stream"]["generation"] = json!(v);
            Some(format!("stream[{i}].generation={v}"))
        }
        8 => {
            let v = boundary(rng, tlen);
            data["lcid"] = json!(v);
            Some(format!("lcid={v}"))
        }
        9 => {
            let ss = idx_of(&|s| matches!(s, St::CallSent(..)));
            let i = *ss.get(rng.below(ss.len().max(1)))?;
            let v = boundary(rng, tlen);
            let who = match rng.below(3) {
                0 => attacker_id.to_string(),
                1 => "garbage".to_string(),
                _ => String::new(),
            };
            data["trace"][i]["call"]["sent_by"] = if rng.chance(1, 2) { json!({"PeerIdWithCallId": {"peer_id": who, "call_id": v}}) } else { json!({"PeerId": who}) };
            Some(format!("sent_by[{i}]~{v}"))
        }
        10 | 11 => {
            // state kind swap: overwrite one state by a copy of another
            if tlen < 2 {
                return None;
            }
            let (a, b) = (rng.below(tlen), rng.below(tlen));
            let src = data["trace"][b].clone();
            data["trace"][a] = src;
            Some(format!("state[{a}]:=state[{b}]"))
        }
        12 => {
            // executed scalar <-> stream <-> unused ; executed <-> failed
            let cs = idx_of(&|s| matches!(s, St::CallExec { .. } | St::CallFailed(..)));
            let i = *cs.get(rng.below(cs.len().max(1)))?;
            let cid = match &states[i] {
                St::CallExec { cid, .. } | St::CallFailed(cid) => cid.clone(),
                _ => return None,
            };
            let g = boundary(rng, tlen);
            data["trace"][i]["call"] = match rng.below(4) {
                0 => json!({"executed": {"scalar": cid}}),
                1 => json!({"executed": {"stream": {"cid": cid, "generation": g}}}),
                2 => json!({"executed": {"unused": cid}}),
                _ => json!({"failed": cid}),
            };
            Some(format!("call[{i}] kind change"))
        }
        13 | 14 => {
            // CID reference replaced by one of another store / absent / garbage
            let cs = idx_of(&|s| matches!(s, St::CallExec { .. } | St::CallFailed(..) | St::CanonExec(..)));
            let i = *cs.get(rng.below(cs.len().max(1)))?;
            let other = match rng.below(5) {
                0 => pick_cid(rng, data, "value_store"),
                1 => pick_cid(rng, data, "tetraplet_store"),
                2 => pick_cid(rng, data, "canon_result_store"),
                3 => Some(cid_of_bytes(b"absent")),
                _ => Some("garbage-cid".to_string()),
            }?;
            match &states[i] {
                St::CallExec { kind, .. } => {
                    if *kind == "stream" {
                        data["trace"][i]["call"]["executed"]["stream"]["cid"] = json!(other)
                    } else {
                        data["trace"][i]["call"]["executed"][*kind] = json!(other)
                    }
                }
                St::CallFailed(_) => data["trace"][i]["call"]["failed"] = json!(other),
                St::CanonExec(_) => data["trace"][i]["canon"]["executed"] = json!(other),
                _ => {}
            }
            Some(format!("cidref[{i}] replaced"))
        }
        15 | 16 => {
            // value store entry: not JSON, huge number, deep array, failure object with odd types
            let c = pick_cid(rng, data, "value_store")?;
            let v = match rng.below(7) {
                0 => "not json".to_string(),
                1 => "1e999".to_string(),
                2 => format!("{}1{}", "[".repeat(200), "]".repeat(200)),
                3 => "{\"ret_code\":\"x\",\"message\":5}".to_string(),
                4 => "\"\\ud800\"".to_string(),
                5 => String::new(),
                _ => "123456789012345678901234567890".to_string(),
            };
            store_mut(data, "value_store").insert(c.clone(), json!(v));
            Some(format!("value[{}]:={}", proj::short(&c), proj::trunc(&v, 20)))
        }
        17 => {
            let c = pick_cid(rng, data, "tetraplet_store")?;
            let field = *rng.pick(&["peer_pk", "service_id", "function_name", "lens"]);
            let v = match rng.below(3) {
                0 => attacker_id.to_string(),
                1 => String::new(),
                _ => "x".repeat(70),
            };
            store_mut(data, "tetraplet_store").get_mut(&c)?[field] = json!(v);
            Some(format!("tetraplet[{}].{field}", proj::short(&c)))
        }
        18 => {
            let c = pick_cid(rng, data, "service_result_store")?;
            let field = *rng.pick(&["value_cid", "tetraplet_cid", "argument_hash"]);
            let other = match rng.below(3) {
                0 => pick_cid(rng, data, "value_store"),
                1 => pick_cid(rng, data, "tetraplet_store"),
                _ => Some("zz".to_string()),
            }?;
            store_mut(data, "service_result_store").get_mut(&c)?[field] = json!(other);
            Some(format!("service_result[{}].{field}", proj::short(&c)))
        }
        19 => {
            let sigs = data.get_mut("signatures")?.as_object_mut()?;
            match rng.below(5) {
                0 => {
                    let k = sigs.keys().next()?.clone();
                    sigs.remove(&k);
                }
                1 => {
                    sigs.insert(String::new(), json!(""));
                }
                2 => {
                    sigs.insert("1".to_string(), json!("1"));
                }
                3 => {
                    let k = sigs.keys().next()?.clone();
                    sigs.insert(k, json!("1111"));
                }
                _ => {
                    let ks: Vec<String> = sigs.keys().cloned().collect();
                    if ks.len() >= 2 {
                        let a = sigs[&ks[0]].clone();
                        let b = sigs[&ks[1]].clone();
                        sigs.insert(ks[0].clone(), b);
                        sigs.insert(ks[1].clone(), a);
                    }
                }
            }
            Some("signatures edit".into())
        }
        20 => {
            let tr = data.get_mut("trace")?.as_array_mut()?;
            if tr.is_empty() {
                return None;
            }
            match rng.below(3) {
                0 => {
                    let n = rng.below(tr.len());
                    tr.truncate(n);
                }
                1 => {
                    let i = rng.below(tr.len());
                    let e = tr[i].clone();
                    tr.insert(i, e);
                }
                _ => {
                    let i = rng.below(tr.len());
                    tr.remove(i);
                }
            }
            Some("trace length edit".into())
        }
        21 => {
            let c = pick_cid(rng, data, "canon_result_store")?;
            let other = pick_cid(rng, data, "canon_element_store").or_else(|| Some("zz".into()))?;
            let item = store_mut(data, "canon_result_store").get_mut(&c)?;
            match rng.below(3) {
                0 => item["values"] = json!([other.clone(), other]),
                1 => item["values"] = json!([]),
                _ => item["tetraplet"] = json!("zz"),
            }
            Some("canon result edit".into())
        }
        22 => {
            let c = pick_cid(rng, data, "canon_element_store")?;
            let item = store_mut(data, "canon_element_store").get_mut(&c)?;
            item["provenance"] = match rng.below(3) {
                0 => json!({"type": "literal"}),
                1 => json!({"type": "canon", "cid": "zz"}),
                _ => json!({"type": "service_result", "cid": "zz"}),
            };
            Some("canon element provenance".into())
        }
        _ => {
            // executed canon <-> sent_by
            let cs = idx_of(&|s| matches!(s, St::CanonExec(..) | St::CanonSent(..)));
            let i = *cs.get(rng.below(cs.len().max(1)))?;
            data["trace"][i]["canon"] = if rng.chance(1, 2) { json!({"sent_by": attacker_id}) } else { json!({"executed": pick_cid(rng, data, "canon_result_store").unwrap_or_else(|| "zz".into())}) };
            Some(format!("canon[{i}] kind change"))
        }
    }
}

/// byte-level mutation of an arbitrary buffer
pub fn mutate_bytes(rng: &mut Rng, b: &[u8]) -> Vec<u8> {
    let mut v = b.to_vec();
    if v.is_empty() {
        let n = rng.below(64);
        return rng.bytes(n);
    }
    for _ in 0..rng.range(1, 4) {
        match rng.below(7) {
            0 => {
                let i = rng.below(v.len());
                v[i] ^= 1 << rng.below(8);
            }
            1 => {
                let n = rng.below(v.len());
                v.truncate(n);
            }
            2 => {
                let i = rng.below(v.len() + 1);
                let n = rng.range(1, 8);
                let ins = rng.bytes(n);
                v.splice(i..i, ins);
            }
            3 => {
                if !v.is_empty() {
                    let i = rng.below(v.len());
                    v[i] = *rng.pick(&[0u8, 0xff, 0x7f, 0x80, 0xc0, 0xdc, 0xdd, 0xde, 0xdf, 0x90, 0xa0]);
                }
            }
            4 => {
                // overwrite a 4-byte window with a boundary length (big endian, as msgpack/rkyv BE)
                if v.len() >= 4 {
                    let i = rng.below(v.len() - 3);
                    let x = (*rng.pick(&BOUNDARY) as u32).to_be_bytes();
                    v[i..i + 4].copy_from_slice(&x);
                }
            }
            5 => {
                if v.len() >= 2 {
                    let (a, b2) = (rng.below(v.len()), rng.below(v.len()));
                    let (a, b2) = (a.min(b2), a.max(b2));
                    let chunk: Vec<u8> = v[a..b2].to_vec();
                    let at = rng.below(v.len());
                    v.splice(at..at, chunk);
                }
            }
            _ => {
                if !v.is_empty() {
                    let i = rng.below(v.len());
                    v.remove(i);
                }
            }
        }
        if v.is_empty() {
            break;
        }
    }
    v
}
