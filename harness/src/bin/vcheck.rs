//! vcheck run <Cxx> [--tier quick|thorough] [--seed N] [--only-case K]
//! vcheck worker | reexec   (internal)
use vharness::report::{finish, Cfg};

fn main() {
    let args: Vec<String> = std::env::args().collect();
    let verif_dir = std::env::var("VERIF_DIR").unwrap_or_else(|_| "/verif".to_string());
    match args.get(1).map(|s| s.as_str()) {
        Some("worker") => vharness::sentry::worker_main(),
        Some("reexec") => vharness::sentry::reexec_main(),
        Some("case") => {
            // vcheck case <replay.json>: re-run the isolated case embedded in a replay file, in this process
            let txt = std::fs::read_to_string(&args[2]).expect("replay file");
            let v: serde_json::Value = serde_json::from_str(&txt).expect("json");
            let case = v["detail"]["case"].clone();
            std::env::set_var("VCHECK_PANIC_VERBOSE", "1");
            let h = std::thread::Builder::new().stack_size(vharness::report::STACK).spawn(move || vharness::mon::c01::worker_case(&case)).unwrap();
            println!("{}", serde_json::to_string_pretty(&h.join().unwrap()).unwrap());
        }
        Some("showcase") => {
            // vcheck showcase <seed> <tag> <case> <frag,frag> [thorough]: print the script of an honest-workload case without running it
            use vharness::mon::honest::*;
            let seed: u64 = args[2].parse().unwrap();
            let tag: u64 = args[3].parse().unwrap();
            let case: u64 = args[4].parse().unwrap();
            let frags: Vec<Frag> = args[5].split(',').map(|f| match f { "seq" => Frag::Seq, "stream" => Frag::Stream, "streamnofail" => Frag::StreamNoFail, _ => Frag::SeqNoFail }).collect();
            let thorough = args.get(6).map(|t| t == "thorough").unwrap_or(false);
            let mut rng = vharness::rng::Rng::derive(seed, tag, case);
            let frag = *rng.pick(&frags);
            let g = mk_gen(&mut rng, frag, thorough);
            let ids = vharness::sim::standard_peer_ids(g.n_peers);
            let sc = vharness::gen::generate(&mut rng, &g, &ids);
            let mut air = sc.air.clone();
            for (i, id) in ids.iter().enumerate() {
                air = air.replace(id.as_str(), &format!("@P{i}"));
            }
            println!("; frag={:?} n_peers={}\n{}", frag, g.n_peers, air);
        }
        Some("rerun") => {
            // vcheck rerun <replay.json> [n]: execute the single interpreter run stored in a replay file n times
            let txt = std::fs::read_to_string(&args[2]).expect("replay file");
            let v: serde_json::Value = serde_json::from_str(&txt).expect("json");
            let input: vharness::invoke::RunInput = serde_json::from_value(v["detail"]["input"].clone()).expect("detail.input");
            let n: usize = args.get(3).and_then(|s| s.parse().ok()).unwrap_or(1);
            std::env::set_var("VCHECK_PANIC_VERBOSE", "1");
            let h = std::thread::Builder::new().stack_size(vharness::report::STACK).spawn(move || {
                for i in 0..n {
                    let o = vharness::invoke::invoke(&input);
                    println!("run {i}: code={} {}", o.ret_code, vharness::proj::trunc(&o.error_message, 300));
                }
            }).unwrap();
            let _ = h.join();
        }
        Some("leak") => {
            // vcheck leak <n>: run n honest cases on this thread and print the live heap bytes (diagnostic)
            use vharness::mon::honest::*;
            let n: u64 = args.get(2).and_then(|s| s.parse().ok()).unwrap_or(2000);
            let cfg = Cfg { seed: 1, thorough: true, only_case: None, threads: 1 };
            for case in 0..n {
                let c = build_case(&cfg, 4, case, &[Frag::Seq, Frag::Stream]);
                drop(c);
                if case % 250 == 0 {
                    println!("case {case} live_bytes {}", vharness::alloc::LIVE.load(std::sync::atomic::Ordering::Relaxed));
                }
            }
        }
        Some("showhist") => {
            // vcheck showhist <seed> <tag> <case> <frag,frag> [thorough]: run the honest case and print the
            // steps around runs that left fold lore unclaimed (diagnostic)
            use vharness::mon::honest::*;
            let seed: u64 = args[2].parse().unwrap();
            let tag: u64 = args[3].parse().unwrap();
            let case: u64 = args[4].parse().unwrap();
            let frags: Vec<Frag> = args[5].split(',').map(|f| match f { "seq" => Frag::Seq, "stream" => Frag::Stream, "streamnofail" => Frag::StreamNoFail, _ => Frag::SeqNoFail }).collect();
            let thorough = args.get(6).map(|t| t == "thorough").unwrap_or(false);
            let cfg = Cfg { seed, thorough, only_case: None, threads: 1 };
            let c = build_case(&cfg, tag, case, &frags).expect("case");
            let w = &c.world;
            let mut air = w.air.clone();
            for (i, p) in w.peers.iter().enumerate() {
                air = air.replace(p.id.as_str(), &format!("@P{i}"));
            }
            println!("{air}");
            let interesting: Vec<usize> = c.history.steps.iter().filter(|s| s.out.ret_code != 0 || s.out.events.iter().any(|e| matches!(e, air::verif_hooks::Event::FoldUnclaimedLoreByCause { .. }))).map(|s| s.idx).collect();
            for s in &c.history.steps {
                let show = interesting.iter().any(|i| s.idx + 1 >= *i && s.idx <= *i);
                println!("step {} {} {:?} from={:?} code={} {} next={:?}", s.idx, w.peers[s.peer].name, s.decision, s.from, s.out.ret_code, vharness::proj::trunc(&s.out.error_message, 160), s.out.next_peers.iter().map(|p| w.peer_name(p)).collect::<Vec<_>>());
                if show {
                    if let Some(v) = &s.cur_v { println!("   CUR  {:?}", vharness::proj::render_trace(v)); }
                    if let Some(v) = &s.prev_v { println!("   PREV {:?}", vharness::proj::render_trace(v)); }
                    if let Some(v) = &s.out_v { println!("   OUT  {:?}", vharness::proj::render_trace(v)); }
                    for e in &s.out.events { if !matches!(e, air::verif_hooks::Event::StreamAdd { .. } | air::verif_hooks::Event::ScopeStart { .. } | air::verif_hooks::Event::ScopeSpan { .. } | air::verif_hooks::Event::StreamUse { .. } | air::verif_hooks::Event::ScopeEnd { .. }) { println!("      ev {:?}", e); } }
                }
            }
        }
        Some("play") => {
            // vcheck play <air-file> <n_peers> <seed> : run one random history of a hand-written script and print it
            let air = std::fs::read_to_string(&args[2]).expect("air file");
            let n: usize = args.get(3).and_then(|s| s.parse().ok()).unwrap_or(3);
            let seed: u64 = args.get(4).and_then(|s| s.parse().ok()).unwrap_or(1);
            let ids = vharness::sim::standard_peer_ids(n);
            let mut air = air;
            for (i, id) in ids.iter().enumerate() {
                air = air.replace(&format!("@P{i}"), id);
            }
            let w = vharness::sim::World::new(n, air, None, "play", 3);
            let mut rng = vharness::rng::Rng::new(seed);
            let sched = vharness::sim::SchedCfg { max_dups: 0, dup_bias: 0, ..Default::default() };
            let h = vharness::sim::run_random(&w, &mut rng, &sched);
            for s in &h.steps {
                println!("step {} {} {:?} code={} {} next={:?}", s.idx, w.peers[s.peer].name, s.decision, s.out.ret_code, vharness::proj::trunc(&s.out.error_message, 200), s.out.next_peers.iter().map(|p| w.peer_name(p)).collect::<Vec<_>>());
                if let Ok(r) = &s.out.requests { for (id, r) in r { println!("    req {id}: {} {:?}", r.function, r.args); if std::env::var("PLAY_TETS").is_ok() { for (a, t) in r.tetraplets.iter().enumerate() { println!("        arg{a}: {:?}", t.iter().map(|t| format!("({},{},{},{})", w.peer_name(&t.0), t.1, t.2, t.3)).collect::<Vec<_>>()); } } } }
                if let Some(v) = &s.out_v { println!("    {:?}", vharness::proj::render_trace(v)); }
                if std::env::var("PLAY_EVENTS").is_ok() { for e in &s.out.events { println!("      ev {:?}", e); } }
            }
            println!("quiescent={}", h.quiescent);
        }
        Some("run") => {
            let prop = args.get(2).cloned().unwrap_or_default();
            let mut cfg = Cfg {
                seed: std::env::var("VERIF_SEED").ok().and_then(|s| s.parse().ok()).unwrap_or(1),
                thorough: std::env::var("VERIF_TIER").map(|t| t == "thorough").unwrap_or(false),
                only_case: None,
                threads: std::thread::available_parallelism().map(|n| n.get()).unwrap_or(8).min(16),
            };
            let mut i = 3;
            while i < args.len() {
                match args[i].as_str() {
                    "--tier" => {
                        cfg.thorough = args.get(i + 1).map(|t| t == "thorough").unwrap_or(false);
                        i += 1;
                    }
                    "quick" => cfg.thorough = false,
                    "thorough" => cfg.thorough = true,
                    "--seed" => {
                        cfg.seed = args.get(i + 1).and_then(|s| s.parse().ok()).unwrap_or(cfg.seed);
                        i += 1;
                    }
                    "--only-case" => {
                        cfg.only_case = args.get(i + 1).and_then(|s| s.parse().ok());
                        i += 1;
                    }
                    "--threads" => {
                        cfg.threads = args.get(i + 1).and_then(|s| s.parse().ok()).unwrap_or(cfg.threads);
                        i += 1;
                    }
                    _ => {}
                }
                i += 1;
            }
            vharness::invoke::install_panic_hook();
            let _ = vharness::errcodes::table();
            let t0 = std::time::Instant::now();
            let rep = match vharness::mon::dispatch(&prop, &cfg) {
                Some(r) => r,
                None => {
                    eprintln!("unknown property {prop}");
                    std::process::exit(2);
                }
            };
            let code = finish(&cfg, rep, t0.elapsed().as_secs_f64(), &verif_dir);
            std::process::exit(code);
        }
        _ => {
            eprintln!("usage: vcheck run <Cxx> [quick|thorough] [--seed N] [--only-case K]");
            std::process::exit(2);
        }
    }
}
