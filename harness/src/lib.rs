pub mod invoke;
pub mod keys;
pub mod proj;
pub mod rng;
