pub mod alloc;
pub mod ast;
pub mod errcodes;
pub mod gen;
pub mod invoke;
pub mod keys;
pub mod mon;
pub mod oracle;
pub mod proj;
pub mod report;
pub mod rng;
pub mod sanitize;
pub mod sentry;
pub mod service;
pub mod sim;
pub mod tamper;

#[cfg(not(vcheck_no_alloc_monitor))]
#[global_allocator]
static GLOBAL: alloc::Counting = alloc::Counting;
