//! Verdict bookkeeping: counters, distinct-case sets, samples, violations; parallel case runner;
//! evidence and replay files; known-findings handling.
use serde_json::{json, Value};
use std::collections::{BTreeMap, BTreeSet, HashSet};
use std::sync::atomic::{AtomicU64, Ordering};
use std::sync::Mutex;

#[derive(Clone, Debug)]
pub struct Violation {
    pub prop: String,
    /// exact signature used to match known findings
    pub sig: String,
    pub what: String,
    pub case: u64,
    pub detail: Value,
}

#[derive(Default, Clone)]
pub struct Stats {
    pub counters: BTreeMap<String, u64>,
    pub distinct: BTreeMap<String, HashSet<u64>>,
    pub samples: Vec<Value>,
    pub violations: Vec<Violation>,
    pub inconclusive: Vec<String>,
    pub labels: BTreeMap<String, BTreeSet<String>>,
}

impl Stats {
    pub fn inc(&mut self, k: &str, n: u64) {
        *self.counters.entry(k.to_string()).or_default() += n;
    }
    pub fn get(&self, k: &str) -> u64 {
        self.counters.get(k).cloned().unwrap_or(0)
    }
    pub fn seen(&mut self, k: &str, h: u64) {
        self.distinct.entry(k.to_string()).or_default().insert(h);
    }
    pub fn distinct_count(&self, k: &str) -> u64 {
        self.distinct.get(k).map(|s| s.len() as u64).unwrap_or(0)
    }
    pub fn label(&mut self, k: &str, l: &str) {
        self.labels.entry(k.to_string()).or_default().insert(l.to_string());
    }
    pub fn sample(&mut self, v: Value) {
        if self.samples.len() < 3 {
            self.samples.push(v);
        }
    }
    pub fn violation(&mut self, prop: &str, sig: &str, what: &str, case: u64, detail: Value) {
        // root-cause tag of the recorded fold-lore finding (mon::taint); empty outside honest histories
        let step = detail.get("step").and_then(|x| x.as_u64()).map(|x| x as usize);
        let tagged = if sig.contains(crate::mon::taint::SUFFIX) || sig.contains(crate::mon::taint::SUFFIX_CALL) || sig.contains(crate::mon::taint::SUFFIX_LAST) || sig.contains(crate::mon::taint::SUFFIX_LAST_SCRIPT) { sig.to_string() } else { format!("{sig}{}", crate::mon::taint::suffix(prop, step)) };
        let sig = tagged.as_str();
        // keep at most a handful per signature: the first witness is what matters
        let same = self.violations.iter().filter(|v| v.sig == sig).count();
        self.inc(&format!("violations[{sig}]"), 1);
        if same < 2 && self.violations.len() < 200 {
            self.violations.push(Violation { prop: prop.to_string(), sig: sig.to_string(), what: what.to_string(), case, detail });
        }
    }
    pub fn merge(&mut self, o: Stats) {
        for (k, v) in o.counters {
            *self.counters.entry(k).or_default() += v;
        }
        for (k, v) in o.distinct {
            self.distinct.entry(k).or_default().extend(v);
        }
        for (k, v) in o.labels {
            self.labels.entry(k).or_default().extend(v);
        }
        for s in o.samples {
            self.sample(s);
        }
        for v in o.violations {
            let same = self.violations.iter().filter(|x| x.sig == v.sig).count();
            if same < 2 && self.violations.len() < 200 {
                self.violations.push(v);
            }
        }
        self.inconclusive.extend(o.inconclusive);
    }
}

#[derive(Clone, Debug)]
pub struct Cfg {
    pub seed: u64,
    pub thorough: bool,
    pub only_case: Option<u64>,
    pub threads: usize,
}

impl Cfg {
    pub fn scale(&self, quick: u64, thorough: u64) -> u64 {
        let n = if self.thorough { thorough } else { quick };
        // sanitizer sub-runs (valgrind is ~25x slower) execute a fixed fraction of the workload
        match std::env::var("VCHECK_SCALE_DIV").ok().and_then(|d| d.parse::<u64>().ok()) {
            Some(d) if d > 1 => (n / d).max(2),
            _ => n,
        }
    }
}

pub const STACK: usize = 8 * 1024 * 1024;

/// Run `n_cases` independent cases on worker threads (8 MiB stacks, as the production Wasm stack).
/// Results do not depend on the thread count: each case derives its own PRNG from (seed, case).
pub fn par_cases<F>(cfg: &Cfg, n_cases: u64, f: F) -> Stats
where
    F: Fn(u64, &mut Stats) + Sync,
{
    if let Some(k) = cfg.only_case {
        let mut st = Stats::default();
        let f = &f;
        std::thread::scope(|s| {
            std::thread::Builder::new().stack_size(STACK).spawn_scoped(s, || f(k, &mut st)).unwrap().join().ok();
        });
        return st;
    }
    // diagnostic only (stderr): VCHECK_SLOW_MS=<n> names cases that take longer than n ms
    let slow_ms: u64 = std::env::var("VCHECK_SLOW_MS").ok().and_then(|s| s.parse().ok()).unwrap_or(u64::MAX);
    let next = AtomicU64::new(0);
    let total = Mutex::new(Stats::default());
    std::thread::scope(|s| {
        let mut hs = vec![];
        for _ in 0..cfg.threads.max(1) {
            let h = std::thread::Builder::new()
                .stack_size(STACK)
                .spawn_scoped(s, || {
                    let mut st = Stats::default();
                    loop {
                        let k = next.fetch_add(1, Ordering::Relaxed);
                        if k >= n_cases {
                            break;
                        }
                        let t0 = std::time::Instant::now();
                        f(k, &mut st);
                        let ms = t0.elapsed().as_millis() as u64;
                        if ms >= slow_ms {
                            eprintln!("SLOW-CASE case={k} ms={ms} live_bytes={}", crate::alloc::LIVE.load(Ordering::Relaxed));
                        }
                        if k % 512 == 0 || ms >= 300 {
                            // glibc keeps the high-water mark of every thread's arena: hand freed pages back,
                            // or a long sweep with a few large cases ends up holding tens of gigabytes
                            unsafe {
                                libc::malloc_trim(0);
                            }
                        }
                        if k % 2000 == 0 && std::env::var("VCHECK_MEM").is_ok() {
                            eprintln!("MEM case={k} live_bytes={}", crate::alloc::LIVE.load(Ordering::Relaxed));
                        }
                    }
                    total.lock().unwrap().merge(st);
                })
                .unwrap();
            hs.push(h);
        }
        for h in hs {
            if h.join().is_err() {
                total.lock().unwrap().inconclusive.push("worker thread panicked (harness error)".into());
            }
        }
    });
    total.into_inner().unwrap()
}

pub struct Report {
    pub prop: &'static str,
    pub level: &'static str,
    pub stats: Stats,
    pub evaluations_key: &'static str,
    pub nontrivial_key: &'static str,
    pub rule: String,
    pub assumptions: Vec<String>,
}

pub fn load_known(path: &str) -> Vec<(String, String, String)> {
    // returns (property, signature, what) of OPEN known findings
    let txt = match std::fs::read_to_string(path) {
        Ok(t) => t,
        Err(_) => return vec![],
    };
    let v: Value = serde_json::from_str(&txt).unwrap_or(json!({}));
    let mut out = vec![];
    for f in v.get("known_findings").and_then(|x| x.as_array()).cloned().unwrap_or_default() {
        out.push((
            f.get("property").and_then(|x| x.as_str()).unwrap_or("").to_string(),
            f.get("signature").and_then(|x| x.as_str()).unwrap_or("").to_string(),
            f.get("what").and_then(|x| x.as_str()).unwrap_or("").to_string(),
        ));
    }
    out
}

/// Finalise a run: print verdict lines, write replay and evidence files, return the exit code.
pub fn finish(cfg: &Cfg, rep: Report, wall_s: f64, verif_dir: &str) -> i32 {
    let known = load_known(&format!("{verif_dir}/known_findings.json"));
    let mut new_violations = 0;
    let mut known_hits: BTreeSet<String> = BTreeSet::new();
    let _ = std::fs::create_dir_all(format!("{verif_dir}/replays"));
    let _ = std::fs::create_dir_all(format!("{verif_dir}/evidence"));
    let tier = if cfg.thorough { "thorough" } else { "quick" };
    for v in &rep.stats.violations {
        if let Some(k) = known.iter().find(|k| k.0 == v.prop && k.1 == v.sig) {
            if known_hits.insert(v.sig.clone()) {
                println!("KNOWN-FINDING: property={} {} {}", v.prop, v.sig, k.2);
            }
            continue;
        }
        new_violations += 1;
        let path = format!("{verif_dir}/replays/{}_{}_s{}_c{}_{:08x}.json", v.prop, tier, cfg.seed, v.case, crate::rng::fnv(v.sig.as_bytes()) as u32);
        let body = json!({
            "property": v.prop, "signature": v.sig, "what": v.what, "seed": cfg.seed, "tier": tier, "case": v.case,
            "replay_cmd": format!("./check {} {} --seed {} --only-case {}", v.prop, tier, cfg.seed, v.case),
            "detail": v.detail,
        });
        let _ = std::fs::write(&path, serde_json::to_string_pretty(&body).unwrap_or_default());
        println!("VIOLATION property={} replay={} sig={} :: {}", v.prop, path, v.sig, crate::proj::trunc(&v.what, 300));
    }
    let evaluations = rep.stats.get(rep.evaluations_key);
    let nontrivial = rep.stats.distinct_count(rep.nontrivial_key);
    let mut coverage = serde_json::Map::new();
    coverage.insert("evaluations".into(), json!(evaluations));
    coverage.insert("distinct_nontrivial".into(), json!(nontrivial));
    coverage.insert("rule".into(), json!(rep.rule));
    coverage.insert("samples".into(), Value::Array(rep.stats.samples.clone()));
    let mut counters = serde_json::Map::new();
    for (k, v) in &rep.stats.counters {
        counters.insert(k.clone(), json!(v));
    }
    coverage.insert("counters".into(), Value::Object(counters));
    let mut distinct = serde_json::Map::new();
    for (k, v) in &rep.stats.distinct {
        distinct.insert(k.clone(), json!(v.len()));
    }
    coverage.insert("distinct".into(), Value::Object(distinct));
    let mut labels = serde_json::Map::new();
    for (k, v) in &rep.stats.labels {
        labels.insert(k.clone(), json!(v.iter().cloned().collect::<Vec<_>>()));
    }
    coverage.insert("observed".into(), Value::Object(labels));
    coverage.insert("known_findings_hit".into(), json!(known_hits.iter().cloned().collect::<Vec<_>>()));
    coverage.insert("inconclusive".into(), json!(rep.stats.inconclusive.iter().take(20).cloned().collect::<Vec<_>>()));
    let ev = json!({
        "property_id": rep.prop, "tier": tier, "seed": cfg.seed, "level": rep.level,
        "coverage": Value::Object(coverage), "assumptions": rep.assumptions, "wall_s": wall_s, "violations": new_violations,
    });
    if cfg.only_case.is_none() {
        let _ = std::fs::write(format!("{verif_dir}/evidence/{}.json", rep.prop), serde_json::to_string_pretty(&ev).unwrap_or_default());
    }
    println!(
        "{} {}: evaluations={} distinct_nontrivial={} violations={} known={} inconclusive={} wall={:.1}s",
        rep.prop, tier, evaluations, nontrivial, new_violations, known_hits.len(), rep.stats.inconclusive.len(), wall_s
    );
    if cfg.only_case.is_some() {
        // a single-case replay writes no evidence file: show what the case observed instead
        for (k, v) in &rep.stats.counters {
            println!("  counter {k} = {v}");
        }
    }
    if new_violations > 0 {
        return 1;
    }
    if cfg.only_case.is_none() && (evaluations == 0 || nontrivial < 2) {
        println!("INCONCLUSIVE property={}: the run observed too little (evaluations={evaluations}, nontrivial={nontrivial})", rep.prop);
        return 2;
    }
    if !rep.stats.inconclusive.is_empty() {
        for i in rep.stats.inconclusive.iter().take(5) {
            println!("INCONCLUSIVE property={}: {}", rep.prop, i);
        }
        return 2;
    }
    0
}
