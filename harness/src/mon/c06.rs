//! C06: request ids are fresh; results reach the call that requested them; results under ids that
//! match no pending call are reported as unprocessed.
use super::honest::*;
use crate::invoke::*;
use crate::proj::{self, St};
use crate::report::*;
use crate::rng::Rng;
use crate::sim::*;
use serde_json::{json, Value};
use std::collections::{BTreeMap, BTreeSet};

fn gen_local_script(rng: &mut Rng, me: &str, other: &str, n: &mut usize, depth: usize) -> String {
    let leaf = |n: &mut usize, rng: &mut Rng| {
        *n += 1;
        let target = if rng.chance(1, 8) { other } else { me };
        format!("(call \"{target}\" (\"svc\" \"f{}\") [] v{})", *n, *n)
    };
    if depth == 0 || *n > 10 {
        return leaf(n, rng);
    }
    match rng.below(6) {
        0 | 1 => format!("(par {} {})", gen_local_script(rng, me, other, n, depth - 1), gen_local_script(rng, me, other, n, depth - 1)),
        2 => format!("(seq {} {})", gen_local_script(rng, me, other, n, depth - 1), gen_local_script(rng, me, other, n, depth - 1)),
        3 => format!("(xor {} {})", gen_local_script(rng, me, other, n, depth - 1), gen_local_script(rng, me, other, n, depth - 1)),
        _ => leaf(n, rng),
    }
}

/// all JSON strings contained in the value store of `data`
fn value_texts(data: &Value) -> Vec<String> {
    proj::store(data, "value_store").values().filter_map(|v| v.as_str().map(|s| s.to_string())).collect()
}

pub fn run(cfg: &Cfg) -> Report {
    // part 1: freshness over honest histories
    let n = cfg.scale(800, 20000);
    let mut stats = run_honest(cfg, 6, n, &[Frag::Seq, Frag::Stream], |c, case, _rng, st| {
        let w = &c.world;
        for p in 0..w.peers.len() {
            let mut max_id: u64 = 0;
            let mut prev_lcid: u64 = 0;
            for s in c.history.steps.iter().filter(|s| s.peer == p) {
                st.inc("runs_checked", 1);
                if !s.results_given.is_empty() {
                    st.inc("honest_runs_with_results", 1);
                    // the honest host hands in only results of requests this peer issued for this
                    // particle and has not answered yet: each of them has a call waiting for it
                    if s.out.ret_code == 30000 {
                        st.violation("C06", "pending-result-reported-unprocessed@honest-history", &format!("{} step {}: every result handed in answers a pending request, yet the run reports unprocessed results: {}", w.peers[p].name, s.idx, proj::trunc(&s.out.error_message, 160)), case, json!({"step": s.idx, "history": history_sample(c, 60)}));
                    }
                }
                let Ok(reqs) = &s.out.requests else { continue };
                for id in reqs.keys() {
                    if (*id as u64) <= max_id {
                        st.violation("C06", "stale-request-id", &format!("{} step {}: request id {id} is not larger than the largest id handed out before ({max_id})", w.peers[p].name, s.idx), case, json!({"step": s.idx, "history": history_sample(c, 60)}));
                    }
                }
                if let Some(m) = reqs.keys().max() {
                    max_id = max_id.max(*m as u64);
                    st.seen("fresh_id_runs", crate::mon::c02::input_hash(&s.input));
                }
                if s.produced_new_data() {
                    if let Some(v) = &s.out_v {
                        let l = proj::lcid(v);
                        if l < prev_lcid {
                            st.violation("C06", "lcid-decreased", &format!("{} step {}: last call request id went from {prev_lcid} to {l}", w.peers[p].name, s.idx), case, json!({"step": s.idx}));
                        }
                        if l < max_id {
                            st.violation("C06", "lcid-below-issued-id", &format!("{} step {}: data records last call request id {l} but id {max_id} was handed out", w.peers[p].name, s.idx), case, json!({"step": s.idx}));
                        }
                        prev_lcid = l;
                    }
                }
            }
        }
    });
    // part 2: routing under an adversarial host
    let routing = par_cases(cfg, cfg.scale(2500, 60000), |case, st| {
        let mut rng = Rng::derive(cfg.seed, 0x60, case);
        let peers = standard_peers(2);
        let (me, other) = (&peers[0], &peers[1]);
        let mut ncalls = 0;
        let air = gen_local_script(&mut rng, &me.id, &other.id, &mut ncalls, 4);
        let w = World::new(2, air.clone(), None, &format!("route-{}-{case}", cfg.seed), 3);
        let mut prev: Vec<u8> = vec![];
        let mut pending: BTreeMap<u32, CallRequest> = BTreeMap::new();
        let mut answered: BTreeSet<u32> = BTreeSet::new();
        let mut issued: BTreeMap<u32, String> = BTreeMap::new();
        let mut nonce = 0u64;
        let mut transcript: Vec<Value> = vec![];
        for round in 0..30 {
            let mut input = w.input(me);
            input.prev = prev.clone();
            let prev_states = proj::decode(&prev).map(|v| proj::states(&v.data)).unwrap_or_default();
            let mut cr: BTreeMap<String, (i32, String)> = BTreeMap::new();
            let mut good: Vec<(u32, String, i32)> = vec![]; // id, nonce text, code
            let mut bogus: Vec<(String, String)> = vec![]; // id text, nonce text
            if round > 0 {
                if pending.is_empty() {
                    break;
                }
                let mut ids: Vec<u32> = pending.keys().cloned().collect();
                rng.shuffle(&mut ids);
                let k = rng.range(1, ids.len());
                for id in ids.into_iter().take(k) {
                    nonce += 1;
                    let code = if rng.chance(1, 5) { 1 + rng.below(3) as i32 } else { 0 };
                    // the closing dot keeps nonces prefix-free: results are located by substring search
                    let text = format!("nonce-{case}-{nonce}.");
                    let res = if code == 0 { format!("\"{text}\"") } else { text.clone() };
                    cr.insert(id.to_string(), (code, res));
                    good.push((id, text, code));
                    pending.remove(&id);
                    answered.insert(id);
                }
                // adversarial extras
                for _ in 0..rng.below(3) {
                    nonce += 1;
                    let text = format!("bogus-{case}-{nonce}.");
                    let id_text = match rng.below(4) {
                        0 if !answered.is_empty() => {
                            let a: Vec<u32> = answered.iter().cloned().filter(|i| !good.iter().any(|g| g.0 == *i)).collect();
                            if a.is_empty() { "777".to_string() } else { rng.pick(&a).to_string() }
                        }
                        1 => format!("{}", 1000 + rng.below(1000)),
                        2 => "0".to_string(),
                        _ => format!("{}", u32::MAX),
                    };
                    if cr.contains_key(&id_text) || pending.contains_key(&id_text.parse().unwrap_or(0)) {
                        continue;
                    }
                    cr.insert(id_text.clone(), (0, format!("\"{text}\"")));
                    bogus.push((id_text, text));
                }
            }
            input.call_results = CallResultsIn::Map(cr.clone());
            let out = invoke(&input);
            st.inc("routing_runs", 1);
            transcript.push(json!({"round": round, "given": cr.iter().map(|(k, v)| format!("{k}->{}:{}", v.0, v.1)).collect::<Vec<_>>(), "ret_code": out.ret_code, "msg": proj::trunc(&out.error_message, 200)}));
            let detail = |t: &Vec<Value>| json!({"air": air, "transcript": t});
            if !matches!(classify(out.ret_code), CodeClass::Success | CodeClass::Farewell | CodeClass::Catchable) {
                st.violation("C06", &format!("routing-run-failed@{}", crate::errcodes::table().name(out.ret_code)), &format!("an honest single-peer run with call results failed: {} {}", out.ret_code, proj::trunc(&out.error_message, 200)), case, detail(&transcript));
                break;
            }
            let Ok(view) = proj::decode(&out.data) else { break };
            let states = proj::states(&view.data);
            let texts = value_texts(&view.data);
            for (id, text, code) in &good {
                st.inc("results_routed", 1);
                st.seen("routed_results", crate::rng::fnv(text.as_bytes()));
                // the call that requested it: the unique function name of the request issued under this id
                let Some(fname) = issued.get(id).cloned() else {
                    st.inconclusive.push(format!("harness: no request recorded for pending id {id}"));
                    continue;
                };
                if !prev_states.iter().any(|s| matches!(s, St::CallSent(p, Some(i)) if *p == me.id && *i == *id as u64)) {
                    st.violation("C06", "pending-id-without-sent-state", &format!("id {id} is pending but the previous data has no sent_by(self,{id}) state"), case, detail(&transcript));
                }
                let holder = states.iter().find_map(|s| match s {
                    St::CallExec { kind, cid, .. } if *kind != "unused" => proj::service_result(&view.data, cid).filter(|(v, _, _)| v.contains(text.as_str())).map(|(_, t, _)| (*code == 0, t.clone())),
                    St::CallFailed(cid) => proj::service_result(&view.data, cid).filter(|(v, _, _)| v.contains(text.as_str())).map(|(_, t, _)| (*code != 0, t.clone())),
                    _ => None,
                });
                let ok = match &holder {
                    Some((kind_ok, t)) => *kind_ok && t["function_name"].as_str() == Some(fname.as_str()) && t["peer_pk"].as_str() == Some(me.id.as_str()),
                    None => false,
                };
                if !ok {
                    st.violation("C06", "result-not-at-requesting-call", &format!("the result {text} given under id {id} (requested by call {fname}) is recorded at {:?}", holder.map(|h| h.1)), case, detail(&transcript));
                }
                if states.iter().any(|s| matches!(s, St::CallSent(p, Some(i)) if *p == me.id && *i == *id as u64)) {
                    st.violation("C06", "answered-call-still-pending", &format!("the result under id {id} was applied but a sent_by(self,{id}) state remains"), case, detail(&transcript));
                }
                let occurrences = texts.iter().filter(|t| t.contains(text.as_str())).count();
                let state_occ = states
                    .iter()
                    .filter(|s| match s {
                        St::CallExec { kind, cid, .. } if *kind != "unused" => proj::service_result(&view.data, cid).map(|(v, _, _)| v.contains(text.as_str())).unwrap_or(false),
                        St::CallFailed(cid) => proj::service_result(&view.data, cid).map(|(v, _, _)| v.contains(text.as_str())).unwrap_or(false),
                        _ => false,
                    })
                    .count();
                if state_occ != 1 || occurrences != 1 {
                    st.violation("C06", "result-applied-elsewhere", &format!("the result {text} given under id {id} occurs in {state_occ} trace states and {occurrences} stored values (expected exactly one)"), case, detail(&transcript));
                }
            }
            for (id_text, text) in &bogus {
                st.inc("results_under_non_pending_ids", 1);
                st.seen("routed_results", crate::rng::fnv(text.as_bytes()));
                if texts.iter().any(|t| t.contains(text.as_str())) {
                    st.violation("C06", "non-pending-result-applied", &format!("the result {text} given under the non-pending id {id_text} was stored in the data"), case, detail(&transcript));
                }
                if out.ret_code == 0 {
                    st.violation("C06", "non-pending-result-dropped-silently", &format!("the result {text} given under the non-pending id {id_text} was neither applied nor reported (ret_code 0)"), case, detail(&transcript));
                } else if out.ret_code == 30000 {
                    st.inc("unprocessed_results_reported", 1);
                    if !out.error_message.contains(&format!("\"{id_text}\"")) {
                        st.violation("C06", "unprocessed-report-omits-id", &format!("code 30000 but the message does not name the unprocessed id {id_text}: {}", proj::trunc(&out.error_message, 200)), case, detail(&transcript));
                    }
                } else {
                    st.inc("reporting_clause_not_exercised_run_ended_in_another_error", 1);
                }
            }
            if bogus.is_empty() && out.ret_code == 30000 {
                st.violation("C06", "pending-result-reported-unprocessed", &format!("every id given was pending, yet the run reports unprocessed results: {}", proj::trunc(&out.error_message, 200)), case, detail(&transcript));
            }
            prev = out.data.clone();
            if let Ok(r) = &out.requests {
                for (id, q) in r {
                    if issued.insert(*id, q.function.clone()).is_some() {
                        st.violation("C06", "request-id-reused", &format!("request id {id} was issued twice"), case, detail(&transcript));
                    }
                    pending.insert(*id, q.clone());
                }
            }
            if case < 2 && round == 2 {
                st.sample(json!({"air": air, "transcript": transcript}));
            }
        }
    });
    stats.merge(routing);
    // evaluations: runs of both parts
    let total = stats.get("runs_checked") + stats.get("routing_runs");
    stats.inc("runs_total", total);
    Report {
        prop: "C06",
        level: "exploration",
        stats,
        evaluations_key: "runs_total",
        nontrivial_key: "routed_results",
        rule: "part 1: over honest multi-peer histories every request id exceeds all ids handed out before on that peer and the recorded last id never decreases nor lags; part 2: an adversarial host keeps several local calls pending (par/seq/xor of local calls), returns results in random subsets and orders, each with a unique nonce, mixed with ids never issued, ids already answered, 0 and u32::MAX; a result under a pending id must be recorded exactly once, at the call (unique function name) that was issued that id, whose sent_by state must be gone, a result under a non-pending id must appear nowhere and be reported with code 30000 naming the id; distinct = distinct nonces routed".into(),
        assumptions: vec!["every call site of a part-2 script has a unique function name, so the tetraplet of the state holding a nonce names the call it was applied to".into()],
    }
}
