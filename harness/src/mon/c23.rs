//! C23: the parser is total and accepts only well-scoped scripts.
//!
//! Function under test: `air_parser::parse`. Every text is parsed under the panic guard
//! (totality). Every ACCEPTED text has its public AST converted to the harness AST (`conv`, which
//! fails on `Instruction::Error` / `ValueAccessor::Error` = completeness) and walked by the
//! hand-written scoping walker (`scope_errors`). For generated and structurally mutated scripts the
//! walker runs on the harness tree the text was printed from, and the parser's tree must have the
//! same instruction kinds in pre-order. Injected scoping errors must be rejected.
//!
//! Violation signatures: `panic@<file:line>`, `incomplete-tree@<node>`, `tree-shape-differs`,
//! `accepted-ill-scoped@<operand position>/<undefined|defined-later>` and
//! `accepted-ill-scoped@next/<no-such-fold|fold-not-enclosing>`.
use crate::ast::*;
use crate::gen::{generate, GenCfg};
use crate::invoke::guarded;
use crate::proj::trunc;
use crate::report::*;
use crate::rng::{fnv, Rng};
use air_lambda_ast::{Functor, LambdaAST, ValueAccessor};
use air_parser::ast as pa;
use serde_json::json;
use std::collections::HashMap;

// ---------------------------------------------------------------------------------------------
// Scoping walker over the harness AST (the reference; never looks at the repository's validator)

enum Ev<'a> {
    Def(&'a str),
    /// name, operand position, true if the name is a `.[name]` inside the lens of %last_error% / :error:
    Use(&'a mut String, &'static str, bool),
    /// name, iterators of the enclosing folds (the `next` is in the fold's body OR last instruction)
    Next(&'a mut String, &'a [String]),
}

type Visitor<'f> = dyn FnMut(usize, Ev) + 'f;

fn visit_val(v: &mut Val, site: &'static str, at: usize, f: &mut Visitor) {
    let (lens, of_error) = match v {
        Val::Var(n) => {
            f(at, Ev::Use(n, site, false));
            return;
        }
        Val::VarLens(n, l) => {
            f(at, Ev::Use(n, site, false));
            (l, false)
        }
        Val::LastError(Some(l)) | Val::Error(Some(l)) => (l, true),
        _ => return,
    };
    if let Lens::Path(p) = lens {
        for a in p {
            if let Acc::ByScalar(n) = a {
                f(at, Ev::Use(n, site, of_error));
            }
        }
    }
}

/// Pre-order visit; `at` is the 1-based pre-order index of the instruction an event belongs to.
/// The printer emits instructions in pre-order, so `at` orders the text positions of instructions.
/// The source stream/map of `canon` is deliberately NOT a use (validator.rs `met_canon`: "canon
/// doesn't check stream to be defined, because empty streams are considered to be empty").
fn visit(ins: &mut Ins, at: &mut usize, iters: &mut Vec<String>, f: &mut Visitor) {
    *at += 1;
    let me = *at;
    match ins {
        Ins::Call { peer, service, func, args, out } => {
            visit_val(peer, "call-peer", me, f);
            visit_val(service, "call-service", me, f);
            visit_val(func, "call-function", me, f);
            for a in args {
                visit_val(a, "call-arg", me, f);
            }
            if let Out::Scalar(n) | Out::Stream(n) = out {
                f(me, Ev::Def(n));
            }
        }
        Ins::Canon { peer, src: _, dst } => {
            visit_val(peer, "canon-peer", me, f);
            f(me, Ev::Def(dst));
        }
        Ins::Ap { arg, out } => {
            visit_val(arg, "ap-source", me, f);
            if let Out::Scalar(n) | Out::Stream(n) = out {
                f(me, Ev::Def(n));
            }
        }
        Ins::ApMap { key, value, map } => {
            visit_val(key, "ap-map-key", me, f);
            visit_val(value, "ap-map-value", me, f);
            f(me, Ev::Def(map));
        }
        Ins::Seq(a, b) | Ins::Par(a, b) | Ins::Xor(a, b) => {
            visit(a, at, iters, f);
            visit(b, at, iters, f);
        }
        Ins::New(n, b) => {
            f(me, Ev::Def(n));
            visit(b, at, iters, f);
        }
        Ins::Fail(FailBody::Val(v)) => visit_val(v, "fail-operand", me, f),
        Ins::Fold { iterable, it, body, last } => {
            visit_val(iterable, "fold-iterable", me, f);
            f(me, Ev::Def(it));
            iters.push(it.clone());
            visit(body, at, iters, f);
            if let Some(l) = last {
                visit(l, at, iters, f);
            }
            iters.pop();
        }
        Ins::Next(n) => f(me, Ev::Next(n, iters)),
        Ins::Match(a, b, i) | Ins::Mismatch(a, b, i) => {
            visit_val(a, "match-operand", me, f);
            visit_val(b, "match-operand", me, f);
            visit(i, at, iters, f);
        }
        Ins::Never | Ins::Null | Ins::Fail(FailBody::Lit(..)) => {}
    }
}

fn visit_all(ins: &mut Ins, f: &mut Visitor) {
    visit(ins, &mut 0, &mut vec![], f)
}

#[derive(Debug)]
struct Offence {
    at: usize,
    name: String,
    /// `<operand position>/<undefined | defined-later>`; scalars inside a variable's lens are
    /// reported under the operand's position, scalars inside the lens of %last_error% / :error:
    /// under `error-lens-scalar`; for next `next/<no-such-fold | fold-not-enclosing>`
    site: String,
}

/// All violations of the statement under the stated interpretation. A use at instruction `at` is
/// fine iff some definition of the same name (call output, ap result, ap-map's map, canon result,
/// `new` argument, fold iterator) belongs to an instruction with a SMALLER pre-order index. The
/// iterator of an enclosing fold is defined at the fold's index, which is smaller than the index
/// of everything inside the fold, so "enclosing fold iterator" needs no separate clause; the fold's
/// own iterable and a call's own output have the same index as the use and do not count.
fn scope_errors(ins: &Ins) -> Vec<Offence> {
    let mut t = ins.clone();
    let mut defs: HashMap<String, usize> = HashMap::new();
    visit_all(&mut t, &mut |at, ev| {
        if let Ev::Def(n) = ev {
            defs.entry(n.to_string()).or_insert(at); // pre-order: the first seen is the earliest
        }
    });
    let mut fold_iters: Vec<String> = vec![];
    ins.walk(&mut |i| {
        if let Ins::Fold { it, .. } = i {
            fold_iters.push(it.clone())
        }
    });
    let mut out = vec![];
    visit_all(&mut t, &mut |at, ev| match ev {
        Ev::Use(n, site, of_error) if !defs.get(n.as_str()).is_some_and(|d| *d < at) => {
            let site = if of_error { "error-lens-scalar" } else { site };
            let later = if defs.contains_key(n.as_str()) { "defined-later" } else { "undefined" };
            out.push(Offence { at, name: n.clone(), site: format!("{site}/{later}") })
        }
        Ev::Next(n, iters) if !iters.contains(n) => {
            let which = if fold_iters.contains(n) { "fold-not-enclosing" } else { "no-such-fold" };
            out.push(Offence { at, name: n.clone(), site: format!("next/{which}") })
        }
        _ => {}
    });
    out
}

fn kinds(ins: &Ins) -> Vec<&'static str> {
    let mut v = vec![];
    ins.walk(&mut |i| v.push(i.kind()));
    v
}

// ---------------------------------------------------------------------------------------------
// Repository AST -> harness AST (fails on error nodes)

type R<T> = Result<T, &'static str>;

fn lens(l: &LambdaAST) -> R<Lens> {
    Ok(match l {
        LambdaAST::Functor(Functor::Length) => Lens::Length,
        LambdaAST::ValuePath(p) => {
            let mut v = vec![];
            for a in p.iter() {
                v.push(match a {
                    ValueAccessor::ArrayAccess { idx } => Acc::Idx(*idx),
                    ValueAccessor::FieldAccessByName { field_name } => Acc::Field(field_name.to_string()),
                    ValueAccessor::FieldAccessByScalar { scalar_name } => Acc::ByScalar(scalar_name.to_string()),
                    ValueAccessor::Error => return Err("lens-error-accessor"),
                });
            }
            Lens::Path(v)
        }
    })
}

fn opt_lens(l: &Option<LambdaAST>) -> R<Option<Lens>> {
    l.as_ref().map(lens).transpose()
}

fn number(n: &pa::Number) -> Val {
    match n {
        pa::Number::Int(i) => Val::Int(*i),
        pa::Number::Float(f) => Val::Float(f.to_string()),
    }
}

fn var(name: &str) -> Val {
    Val::Var(name.to_string())
}

fn var_l(name: &str, l: &LambdaAST) -> R<Val> {
    Ok(Val::VarLens(name.to_string(), lens(l)?))
}

fn value(v: &pa::ImmutableValue) -> R<Val> {
    use pa::ImmutableValue::*;
    Ok(match v {
        InitPeerId => Val::InitPeer,
        Error(e) => Val::Error(opt_lens(&e.lens)?),
        LastError(l) => Val::LastError(opt_lens(l)?),
        Timestamp => Val::Timestamp,
        TTL => Val::Ttl,
        Literal(s) => Val::Lit(s.to_string()),
        Number(n) => number(n),
        Boolean(b) => Val::Bool(*b),
        EmptyArray => Val::EmptyArr,
        Variable(v) => var(v.name()),
        VariableWithLambda(v) => var_l(v.name(), v.lambda())?,
    })
}

fn ap_arg(v: &pa::ApArgument) -> R<Val> {
    use pa::ApArgument::*;
    Ok(match v {
        InitPeerId => Val::InitPeer,
        Timestamp => Val::Timestamp,
        TTL => Val::Ttl,
        Error(e) => Val::Error(opt_lens(&e.lens)?),
        LastError(l) => Val::LastError(opt_lens(l)?),
        Literal(s) => Val::Lit(s.to_string()),
        Number(n) => number(n),
        Boolean(b) => Val::Bool(*b),
        EmptyArray => Val::EmptyArr,
        Scalar(s) => var(s.name),
        ScalarWithLambda(s) => var_l(s.name, &s.lambda)?,
        CanonStream(s) => var(s.name),
        CanonStreamMap(s) => var(s.name),
        CanonStreamWithLambda(s) => var_l(s.name, &s.lambda)?,
        CanonStreamMapWithLambda(s) => var_l(s.name, &s.lambda)?,
    })
}

fn peer(v: &pa::ResolvableToPeerIdVariable) -> R<Val> {
    use pa::ResolvableToPeerIdVariable::*;
    Ok(match v {
        InitPeerId => Val::InitPeer,
        Literal(s) => Val::Lit(s.to_string()),
        Scalar(s) => var(s.name),
        ScalarWithLambda(s) => var_l(s.name, &s.lambda)?,
        CanonStreamWithLambda(s) => var_l(s.name, &s.lambda)?,
        CanonStreamMapWithLambda(s) => var_l(s.name, &s.lambda)?,
    })
}

fn string_var(v: &pa::ResolvableToStringVariable) -> R<Val> {
    use pa::ResolvableToStringVariable::*;
    Ok(match v {
        Literal(s) => Val::Lit(s.to_string()),
        Scalar(s) => var(s.name),
        ScalarWithLambda(s) => var_l(s.name, &s.lambda)?,
        CanonStreamWithLambda(s) => var_l(s.name, &s.lambda)?,
        CanonStreamMapWithLambda(s) => var_l(s.name, &s.lambda)?,
    })
}

fn fold(iterable: Val, it: &str, body: &pa::Instruction, last: &Option<std::rc::Rc<pa::Instruction>>) -> R<Ins> {
    let last = match last {
        Some(l) => Some(Box::new(conv(l)?)),
        None => None,
    };
    Ok(Ins::Fold { iterable, it: it.to_string(), body: Box::new(conv(body)?), last })
}

fn conv(i: &pa::Instruction) -> R<Ins> {
    use pa::Instruction as I;
    let b = |x: &pa::Instruction| conv(x).map(Box::new);
    Ok(match i {
        I::Error => return Err("error-instruction"),
        I::Call(c) => Ins::Call {
            peer: peer(&c.triplet.peer_id)?,
            service: string_var(&c.triplet.service_id)?,
            func: string_var(&c.triplet.function_name)?,
            args: c.args.iter().map(value).collect::<R<Vec<_>>>()?,
            out: match &c.output {
                pa::CallOutputValue::Scalar(s) => Out::Scalar(s.name.to_string()),
                pa::CallOutputValue::Stream(s) => Out::Stream(s.name.to_string()),
                pa::CallOutputValue::None => Out::None,
            },
        },
        I::Ap(a) => Ins::Ap {
            arg: ap_arg(&a.argument)?,
            out: match &a.result {
                pa::ApResult::Scalar(s) => Out::Scalar(s.name.to_string()),
                pa::ApResult::Stream(s) => Out::Stream(s.name.to_string()),
            },
        },
        I::ApMap(a) => Ins::ApMap {
            key: match &a.key {
                pa::StreamMapKeyClause::Literal(s) => Val::Lit(s.to_string()),
                pa::StreamMapKeyClause::Int(i) => Val::Int(*i),
                pa::StreamMapKeyClause::Scalar(s) => var(s.name),
                pa::StreamMapKeyClause::ScalarWithLambda(s) => var_l(s.name, &s.lambda)?,
                pa::StreamMapKeyClause::CanonStreamWithLambda(s) => var_l(s.name, &s.lambda)?,
            },
            value: ap_arg(&a.value)?,
            map: a.map.name.to_string(),
        },
        I::Canon(c) => Ins::Canon { peer: peer(&c.peer_id)?, src: c.stream.name.into(), dst: c.canon_stream.name.into() },
        I::CanonMap(c) => Ins::Canon { peer: peer(&c.peer_id)?, src: c.stream_map.name.into(), dst: c.canon_stream_map.name.into() },
        I::CanonStreamMapScalar(c) => Ins::Canon { peer: peer(&c.peer_id)?, src: c.stream_map.name.into(), dst: c.scalar.name.into() },
        I::Seq(s) => Ins::Seq(b(&s.0)?, b(&s.1)?),
        I::Par(s) => Ins::Par(b(&s.0)?, b(&s.1)?),
        I::Xor(s) => Ins::Xor(b(&s.0)?, b(&s.1)?),
        I::Match(m) => Ins::Match(value(&m.left_value)?, value(&m.right_value)?, b(&m.instruction)?),
        I::MisMatch(m) => Ins::Mismatch(value(&m.left_value)?, value(&m.right_value)?, b(&m.instruction)?),
        I::Fail(f) => Ins::Fail(match &**f {
            pa::Fail::Scalar(s) => FailBody::Val(var(s.name)),
            pa::Fail::ScalarWithLambda(s) => FailBody::Val(var_l(s.name, &s.lambda)?),
            pa::Fail::Literal { ret_code, error_message } => FailBody::Lit(*ret_code, error_message.to_string()),
            pa::Fail::CanonStreamWithLambda(s) => FailBody::Val(var_l(s.name, &s.lambda)?),
            pa::Fail::LastError => FailBody::Val(Val::LastError(None)),
            pa::Fail::Error => FailBody::Val(Val::Error(None)),
        }),
        I::FoldScalar(f) => {
            use pa::FoldScalarIterable::*;
            let iterable = match &f.iterable {
                Scalar(s) => var(s.name),
                ScalarWithLambda(s) => var_l(s.name, &s.lambda)?,
                CanonStream(s) => var(s.name),
                CanonStreamMap(s) => var(s.name),
                CanonStreamMapWithLambda(s) => var_l(s.name, &s.lambda)?,
                EmptyArray => Val::EmptyArr,
            };
            fold(iterable, f.iterator.name, &f.instruction, &f.last_instruction)?
        }
        I::FoldStream(f) => fold(var(f.iterable.name), f.iterator.name, &f.instruction, &f.last_instruction)?,
        I::FoldStreamMap(f) => fold(var(f.iterable.name), f.iterator.name, &f.instruction, &f.last_instruction)?,
        I::Never(_) => Ins::Never,
        I::New(n) => Ins::New(n.argument.name().to_string(), b(&n.instruction)?),
        I::Next(n) => Ins::Next(n.iterator.name.to_string()),
        I::Null(_) => Ins::Null,
    })
}

// ---------------------------------------------------------------------------------------------
// Judging one text

fn panic_sig(loc: &str) -> String {
    let l = loc.strip_prefix("/repo/").unwrap_or(loc);
    let l = match l.find("/registry/src/") {
        Some(p) => l[p + 14..].split_once('/').map(|x| x.1).unwrap_or(l),
        None => l,
    };
    format!("panic@{l}")
}

/// Parse and judge one text. `known`: the harness tree the text was printed from (if any);
/// `injected`: the kind of scoping error injected into it (the walker has already confirmed that
/// `known` is ill-scoped). Returns Some(accepted) unless the parser panicked.
fn judge(text: &str, class: &str, known: Option<&Ins>, injected: Option<&str>, case: u64, st: &mut Stats) -> Option<bool> {
    st.inc("texts", 1);
    st.inc(&format!("texts[{class}]"), 1);
    let h = fnv(text.as_bytes());
    if injected.is_some() {
        st.seen("nontrivial", h);
    }
    let shown = trunc(text, 1500);
    let parsed = guarded(|| air_parser::parse(text).map(|i| conv(&i)).map_err(|e| e.len()));
    let tree = match parsed {
        Err((loc, msg)) if loc.starts_with("src/") => {
            st.inconclusive.push(format!("harness panic at {loc}: {msg} on {shown:?}"));
            return None;
        }
        Err((loc, msg)) => {
            st.violation("C23", &panic_sig(&loc), &format!("air_parser::parse panicked at {loc}: {msg}; text ({class}): {shown:?}"), case, json!({"text": shown, "class": class, "location": loc, "message": msg}));
            return None;
        }
        Ok(Err(report_len)) => {
            st.inc("rejected", 1);
            st.inc(&format!("rejected[{class}]"), 1);
            if report_len == 0 {
                st.inc("odd_rejected_with_empty_report", 1);
            }
            return Some(false);
        }
        Ok(Ok(t)) => t,
    };
    st.inc("accepted", 1);
    st.inc(&format!("accepted[{class}]"), 1);
    let tree = match tree {
        Ok(t) => t,
        Err(node) => {
            st.violation("C23", &format!("incomplete-tree@{node}"), &format!("parse returned Ok with an error node ({node}) in the tree; text ({class}): {shown:?}"), case, json!({"text": shown, "class": class}));
            return Some(true);
        }
    };
    if let Some(k) = known {
        if kinds(k) != kinds(&tree) {
            st.violation("C23", "tree-shape-differs", &format!("the accepted tree has instruction kinds {:?} but the text was printed from {:?}; text: {shown:?}", kinds(&tree), kinds(k)), case, json!({"text": shown, "class": class}));
        } else if *k != tree {
            st.inc("odd_tree_operands_differ", 1);
            st.label("odd_tree_operands_differ_sample", &trunc(&format!("{shown} => {}", tree.text()), 600));
        }
    }
    let subject = known.unwrap_or(&tree);
    if subject.count() >= 3 {
        st.seen("nontrivial", h);
        st.seen("accepted_nontrivial", h);
    }
    let mut sites: Vec<String> = vec![];
    for o in scope_errors(subject) {
        if sites.contains(&o.site) {
            continue;
        }
        let what = format!(
            "accepted although `{}` is used at {} in instruction #{} (pre-order) without a definition earlier in the text or an enclosing fold; class {class}{}; text: {shown:?}",
            o.name, o.site, o.at, injected.map(|k| format!(", injected {k}")).unwrap_or_default()
        );
        st.violation("C23", &format!("accepted-ill-scoped@{}", o.site), &what, case, json!({"text": shown, "class": class, "injected": injected, "name": o.name, "site": o.site, "instruction_preorder_index": o.at}));
        sites.push(o.site);
    }
    if sites.is_empty() && subject.count() >= 3 {
        st.sample(json!({"class": class, "accepted": true, "instructions": subject.count(), "text": trunc(text, 400)}));
    }
    Some(true)
}

// ---------------------------------------------------------------------------------------------
// Injected scoping errors and structural mutations (on the harness AST)

fn nth_mut<'a>(ins: &'a mut Ins, n: &mut usize) -> Option<&'a mut Ins> {
    if *n == 0 {
        return Some(ins);
    }
    *n -= 1;
    match ins {
        Ins::Seq(a, b) | Ins::Par(a, b) | Ins::Xor(a, b) => {
            if let Some(x) = nth_mut(a, n) {
                return Some(x);
            }
            nth_mut(b, n)
        }
        Ins::New(_, b) | Ins::Match(_, _, b) | Ins::Mismatch(_, _, b) => nth_mut(b, n),
        Ins::Fold { body, last, .. } => {
            if let Some(x) = nth_mut(body, n) {
                return Some(x);
            }
            last.as_mut().and_then(|l| nth_mut(l, n))
        }
        _ => None,
    }
}

/// pre-order positions (0-based) of the instructions satisfying `pred`
fn positions(ins: &Ins, pred: impl Fn(&Ins) -> bool) -> Vec<usize> {
    let (mut v, mut k) = (vec![], 0);
    ins.walk(&mut |i| {
        if pred(i) {
            v.push(k);
        }
        k += 1;
    });
    v
}

fn sigil(name: &str) -> &str {
    &name[..name.len() - name.trim_start_matches(['#', '$', '%']).len()]
}

fn probe_call(p: &str, arg: Val) -> Ins {
    Ins::Call { peer: Val::Lit(p.into()), service: Val::Lit("svc".into()), func: Val::Lit("probe".into()), args: vec![arg], out: Out::None }
}

const INJECTIONS: [&str; 6] = ["rename-use", "swap-children", "rename-next", "stray-next", "later-fold-iterator", "self-use"];

/// One mutation of a well-scoped tree that is MEANT to break scoping; the caller asks the walker
/// whether it really did.
fn inject(rng: &mut Rng, base: &Ins, kind: &str, p: &str) -> Option<Ins> {
    let mut t = base.clone();
    let mut iters: Vec<String> = vec![];
    base.walk(&mut |i| {
        if let Ins::Fold { it, .. } = i {
            iters.push(it.clone())
        }
    });
    match kind {
        "rename-use" => {
            let mut n = 0;
            visit_all(&mut t, &mut |_, ev| n += matches!(ev, Ev::Use(..)) as usize);
            if n == 0 {
                return None;
            }
            let (target, mut k) = (rng.below(n), 0);
            visit_all(&mut t, &mut |_, ev| {
                if let Ev::Use(name, ..) = ev {
                    if k == target {
                        *name = format!("{}zzu", sigil(name));
                    }
                    k += 1;
                }
            });
        }
        "swap-children" => {
            let pos = positions(base, |i| matches!(i, Ins::Seq(..) | Ins::Par(..) | Ins::Xor(..)));
            if pos.is_empty() {
                return None;
            }
            if let Some(Ins::Seq(a, b) | Ins::Par(a, b) | Ins::Xor(a, b)) = nth_mut(&mut t, &mut rng.pick(&pos).clone()) {
                std::mem::swap(a, b);
            }
        }
        "rename-next" => {
            let pos = positions(base, |i| matches!(i, Ins::Next(_)));
            if pos.is_empty() {
                return None;
            }
            // a fresh name or the iterator of some other fold (the walker decides whether it encloses)
            let new = if iters.is_empty() || rng.chance(1, 2) { "zzn".to_string() } else { rng.pick(&iters).clone() };
            if let Some(Ins::Next(n)) = nth_mut(&mut t, &mut rng.pick(&pos).clone()) {
                *n = new;
            }
        }
        "stray-next" => {
            let name = if iters.is_empty() || rng.chance(1, 3) { "zzn".to_string() } else { rng.pick(&iters).clone() };
            t = if rng.chance(1, 2) { seq(t, Ins::Next(name)) } else { seq(Ins::Next(name), t) };
        }
        "later-fold-iterator" => {
            if iters.is_empty() {
                return None;
            }
            let it = rng.pick(&iters).clone();
            let early = match rng.below(4) {
                0 => Ins::Ap { arg: Val::Var(it), out: Out::Scalar("zzy".into()) },
                1 => Ins::Match(Val::Var(it), Val::Int(1), Box::new(Ins::Null)),
                2 => Ins::Fold { iterable: Val::Var(it), it: "zzi".into(), body: Box::new(Ins::Next("zzi".into())), last: None },
                _ => probe_call(p, Val::VarLens(it, Lens::Path(vec![Acc::Field("a".into())]))),
            };
            t = seq(early, t);
        }
        _ => {
            // the output of a call also used as its own argument
            let pos = positions(base, |i| matches!(i, Ins::Call { out: Out::Scalar(_), .. }));
            if pos.is_empty() {
                return None;
            }
            if let Some(Ins::Call { args, out: Out::Scalar(n), .. }) = nth_mut(&mut t, &mut rng.pick(&pos).clone()) {
                args.push(Val::Var(n.clone()));
            }
        }
    }
    Some(t)
}

// ---------------------------------------------------------------------------------------------
// Text mutations

const MB: &[char] = &['\u{e9}', '\u{df}', '\u{4e2d}', '\u{1F600}', '\u{301}', '\u{a0}', '\u{2028}', '\u{200b}', '\u{663}', '\u{b2}', '\u{feff}', '\u{0}'];

const VOCAB: &[&str] = &[
    "(", ")", "[", "]", "seq", "par", "xor", "call", "fold", "next", "new", "ap", "canon", "fail", "match", "mismatch", "null", "never",
    "\"a\"", "\"\"", "x", "x1", "it2", "$s", "%m", "#c", "#%c", "#$c", "x.$.a", "x.$.[0]", "x.$.[y]", "x.$.a!", "x.length", ".length", "#c.$.[0].a",
    "%init_peer_id%", "%last_error%", "%last_error%.$.message", "%last_error%.$.[x]", ":error:", ":error:.$.error_code", "%ttl%", "%timestamp%",
    "0", "1", "-1", "+1", "1.5", "true", "false", "9223372036854775807", "9223372036854775808", "-9223372036854775809", "99999999999999999999999",
    "1e999", "1.5e300", "9.9e99999", "0.123456789012", "1.7976931348623157e309", "-0.0", ".5", "1.", "1..2", "--1",
    "x.$.\u{e9}", "x.$.[\u{e9}]", "x.\u{e9}", "%last_error%.$.\u{e9}", ":error:.$.\u{1F600}", "#c.$.[0].\u{4e2d}", "\u{e9}", "\u{e9}x", "$\u{e9}", "#%\u{e9}", "\"\u{e9}\u{1F600}\"",
    "\"", "\\", "\n", ";", "; comment\n", "#", "%", "$", "#%", "#$", ".$", ".", "!", "_", "-",
];

fn tokens(s: &str) -> Vec<String> {
    let (mut v, mut cur) = (vec![], String::new());
    for c in s.chars() {
        if c.is_whitespace() || "()[]".contains(c) {
            if !cur.is_empty() {
                v.push(std::mem::take(&mut cur));
            }
            if !c.is_whitespace() {
                v.push(c.to_string());
            }
        } else {
            cur.push(c);
        }
    }
    if !cur.is_empty() {
        v.push(cur);
    }
    v
}

fn insert_char(rng: &mut Rng, tok: &mut String, at_edge: bool) {
    let n = tok.chars().count();
    let k = if at_edge { *rng.pick(&[0, n]) } else { rng.range(1.min(n), n.saturating_sub(1).max(1.min(n))) };
    let byte = tok.char_indices().nth(k).map(|x| x.0).unwrap_or(tok.len());
    tok.insert(byte, *rng.pick(MB));
}

/// token-level mutations, including the unicode placements the property history asks for
fn mutate_tokens(rng: &mut Rng, s: &str) -> String {
    let mut t = tokens(s);
    for _ in 0..rng.range(1, 3) {
        if t.is_empty() {
            break;
        }
        let i = rng.below(t.len());
        let pick = |rng: &mut Rng, t: &Vec<String>, pred: &dyn Fn(&str) -> bool| -> Option<usize> {
            let c: Vec<usize> = (0..t.len()).filter(|k| pred(&t[*k])).collect();
            if c.is_empty() { None } else { Some(*rng.pick(&c)) }
        };
        let is_name = |x: &str| x.starts_with(|c: char| c.is_alphabetic() || "#$%".contains(c)) && !x.contains('.') && !x.ends_with('%');
        match rng.below(13) {
            0 => {
                t.remove(i);
            }
            1 => t.insert(i, rng.pick(VOCAB).to_string()),
            2 => t[i] = rng.pick(VOCAB).to_string(),
            3 => {
                let j = rng.below(t.len());
                t.swap(i, j);
            }
            4 => {
                let n = rng.range(1, (t.len() - i).min(12));
                let chunk: Vec<String> = t[i..i + n].to_vec();
                let at = rng.below(t.len() + 1);
                t.splice(at..at, chunk);
            }
            5 => t.truncate(i),
            6 => insert_char(rng, &mut t[i], true), // multi-byte character glued to a token boundary
            7 => {
                if let Some(k) = pick(rng, &t, &is_name) {
                    insert_char(rng, &mut t[k], false) // inside a name
                }
            }
            8 => {
                // inside a lens: extend an existing lens, or put a lens on a plain variable
                let tails = [".\u{e9}", ".[\u{e9}]", ".[0].\u{1F600}", ".$.\u{e9}", "\u{e9}", ".[zzk]", "!"];
                if let Some(k) = pick(rng, &t, &|x| x.contains(".$")) {
                    if rng.chance(1, 2) {
                        t[k].push_str(*rng.pick(&tails));
                    } else {
                        insert_char(rng, &mut t[k], false);
                    }
                } else if let Some(k) = pick(rng, &t, &is_name) {
                    t[k].push_str(*rng.pick(&[".$.\u{e9}", ".$.[\u{4e2d}]", ".$.a.\u{1F600}.[0]", ".\u{e9}"]));
                }
            }
            9 => {
                if let Some(k) = pick(rng, &t, &|x| x.starts_with('"')) {
                    insert_char(rng, &mut t[k], false) // inside a string literal
                }
            }
            10 => {
                // very long name / very long lens
                let n = *rng.pick(&[100usize, 300, 1000, 3000]);
                t[i] = match rng.below(3) {
                    0 => "x".repeat(n),
                    1 => format!("x.$.{}", "a.".repeat(n / 2).trim_end_matches('.')),
                    _ => format!("$s{}", "9".repeat(n)),
                };
            }
            11 => {
                // literal error code 0 / overflowing code
                if let Some(k) = pick(rng, &t, &|x| x == "fail") {
                    if k + 1 < t.len() {
                        t[k + 1] = rng.pick(&["0", "-0", "00", "+0", "9223372036854775808", "0.0"]).to_string();
                    }
                }
            }
            _ => {
                // unbalanced brackets
                let b = rng.pick(&["(", ")", "[", "]", "((", "))", "[]", "]["]).to_string();
                t.insert(i, b);
            }
        }
    }
    // mostly one token per line: the parser prints every error report to stderr, with the labelled
    // source lines and the padding written character by character under a global lock, so long
    // single lines are slow to reject
    t.join(if rng.chance(1, 4) { " " } else { "\n" })
}

/// character-level mutations (after c01::mutate_text)
fn mutate_chars(rng: &mut Rng, s: &str) -> String {
    let mut chars: Vec<char> = s.chars().collect();
    for _ in 0..rng.range(1, 4) {
        if chars.is_empty() {
            break;
        }
        let i = rng.below(chars.len());
        match rng.below(8) {
            0 => {
                chars.remove(i);
            }
            1 => chars.insert(i, *rng.pick(&['(', ')', '[', ']', '"', '.', '$', '#', '%', '!', ';', '\n', '-', '9', '\u{e9}', '\u{1F600}', '\u{0}', '\u{a0}'])),
            2 => chars[i] = *rng.pick(&['(', ')', '[', ']', '"', '.', '$', '#', '%', ' ', '0', '\u{e9}', '\u{4e2d}']),
            3 => {
                let j = rng.below(chars.len());
                chars.swap(i, j);
            }
            4 => {
                let n = rng.range(1, (chars.len() - i).min(40));
                let chunk: Vec<char> = chars[i..i + n].to_vec();
                let at = rng.below(chars.len() + 1);
                chars.splice(at..at, chunk);
            }
            5 => chars.truncate(i),
            6 => {
                chars.splice(i..i, "99999999999999999999".chars());
            }
            _ => {
                chars.splice(i..i, ".$.\u{e9}".chars());
            }
        }
    }
    chars.into_iter().collect()
}

fn soup(rng: &mut Rng) -> String {
    let n = rng.range(1, 40);
    (0..n).map(|_| format!("{} ", rng.pick(VOCAB))).collect()
}

fn random_bytes(rng: &mut Rng) -> String {
    let n = rng.below(24);
    let mut b = rng.bytes(n);
    if rng.chance(1, 2) {
        // bias towards the AIR alphabet so that the lexer gets past the first character
        let alpha = b"()[]\"$#%.:!; \nacflnopqrsx019-+_";
        for x in b.iter_mut() {
            if *x < 200 {
                *x = alpha[*x as usize % alpha.len()];
            }
        }
    }
    String::from_utf8_lossy(&b).into_owned()
}

/// hand-written texts: name clashes, odd-but-parsable scripts, number edge cases, unicode in every
/// position, unbalanced brackets, moderate nesting, and the operand positions of every instruction
/// with an undefined variable
fn fixed_texts(p: &str) -> Vec<String> {
    let mut v: Vec<String> = vec![];
    let c = format!("(call \"{p}\" (\"s\" \"f\") [] a)");
    for body in [
        "(fold a a (seq (null) (next a)))", "(fold a i (seq (call \"@\" (\"s\" \"g\") [] i) (next i)))", "(fold a i (seq (ap i i) (next i)))",
        "(fold a i (null) (next i))", "(seq (fold a i (next i)) (next i))", "(seq (fold a i (next i)) (fold a j (next i)))", "(fold a i (seq (next i) (next i)))",
        "(fold a i (fold a i (next i)))", "(fold a i (new i (next i)))", "(seq (fold a i (next i)) (call \"@\" (\"s\" \"g\") [i]))", "(fold [] i (next i))",
        "(call \"@\" (\"s\" \"g\") [a.$.\u{e9}.[0]] x)", "(call \"@\" (\"s\" \"g\") [a.$.[\u{e9}]])", "(call \"@\" (\"s\" \"g\") [a.$.a!])", "(call \"@\" (\"s\" \"g\") [a.\u{e9}])",
        "(call \"@\" (\"s\" \"g\") [a.$\u{e9}])", "(call \"@\" (\"s\" \"g\") [a.$.\u{1F600}])", "(call \"@\" (\"s\" \"g\") [a\u{301}])", "(call a.$.\u{e9} (\"s\" \"g\") [])",
        "(call \"@\" (a.$.\u{e9} \"g\") [])", "(xor (call \"@\" (\"s\" \"g\") [%last_error%.$.\u{e9}]) (call \"@\" (\"s\" \"g\") [:error:.$.\u{e9}]))",
        "(call \"@\" (\"s\" \"g\") [%last_error%.$.[zz]])", "(call \"@\" (\"s\" \"g\") [:error:.$.[zz]])", "(ap %last_error%.$.[zz] y)", "(match :error:.$.[zz] 1 (null))",
        "(call \"@\" (\"s\" \"g\") [a.$.[zz]])", "(call zz (\"s\" \"g\") [])", "(call \"@\" (zz \"g\") [])", "(call \"@\" (\"s\" zz) [])", "(call \"@\" (\"s\" \"g\") [] \u{e9}x)",
        "(call \"@\" (\"\u{e9}\" \"\u{1F600}\") [\"\u{4e2d}\"])", "(fail zz)", "(fail zz.$.a)", "(fail #zz.$.[0])", "(fail a.$.[zz])", "(canon zz $s #c)", "(canon zz %m #%c)",
        "(canon zz %m sc)", "(canon a.$.[zz] $s #c)", "(canon \"@\" $undefined #c)", "(ap (\"k\" zz) %m)", "(ap (zz 1) %m)", "(ap (\"k\" a.$.[zz]) %m)", "(ap zz y)", "(ap #zz $s)",
        "(match zz 1 (null))", "(mismatch 1 zz (null))", "(fold zz i (next i))", "(fold zz.$.a i (next i))", "(fold #zz i (next i))", "(fold #%zz i (next i))", "(fold $zz i (next i))",
        "(fold %zz i (next i))", "(new zz (call \"@\" (\"s\" \"g\") [zz]))", "(call \"@\" (\"s\" \"g\") [a2] a2)", "(ap a3 a3)", "(fail 0 \"m\")", "(fail -0 \"m\")", "(fail 00 \"m\")",
        "(xor (fail 9223372036854775807 \"m\") (fail -9223372036854775808 \"m\"))", "(fail 9223372036854775808 \"m\")", "(xor (fail %last_error%) (fail :error:))",
        "(call \"@\" (\"s\" \"g\") [99999999999999999999999 1e999 -0.0])", "(call \"@\" (\"s\" \"g\") [1.7976931348623157e309])", "(call \"@\" (\"s\" \"g\") [0.1234567890 .5 1. 1..2 +1 --1 \u{663} 1\u{663}])",
        "(match %ttl% %timestamp% (null))", "(call \"@\".$.x (\"s\" \"g\") [])", "(seq (ap (-1 1) %m) (seq (ap (9223372036854775807 2) %m) (canon \"@\" %m #%c)))",
        "(seq (fail zz) (ap 1 zz))", "(seq (canon zz $s #c) (ap 1 zz))", "(seq (ap (\"k\" zz) %m) (ap 1 zz))", "(seq (ap %last_error%.$.[zz] y) (ap 1 zz))", "(seq (call \"@\" (\"s\" \"g\") [zz]) (ap 1 zz))",
        "(match zz 1 (new zz (call \"@\" (\"s\" \"g\") [zz])))", "(mismatch a.$.[zz] 1 (new zz (call \"@\" (\"s\" \"g\") [zz])))", "(fold i j (seq (fold a i (seq (call \"@\" (\"s\" \"g\") [i]) (next i))) (next j)))",
        "(seq (fold a i (seq (null) (next i))) (fold a j (seq (next i) (next j))))", "(seq (fold a i (next i)) (seq (fold a i (next i)) (next i)))",
        "(new $s (seq (ap 1 $s) (seq (canon \"@\" $s #s) (new #s (call \"@\" (\"s\" \"g\") [#s])))))", "(seq (ap 1 $s) (seq (canon \"@\" $s #can) (seq (ap 2 can) (call \"@\" (\"s\" \"g\") [can #can]))))",
    ] {
        v.push(format!("(seq {c} {})", body.replace('@', p)));
    }
    for s in ["", " ", "(", ")", "[", "]", "()", "(null))", "((null)", "(seq (null)", "(seq (null) (null)) (null)", "; only a comment", "\"unclosed", "(call \"p\" (\"s\" \"f\") [)", "(call \"p\" (\"s\" \"f\") [[]])", "(call \"p\" (\"s\" \"f\") []]", "(next i)", "(seq (null) (next i))", "\u{e9}", "(\u{e9})", "(null\u{a0})", "(null)\u{2028}", "(nu\u{e9}ll)", "#", "#%", "$.", "#$.a", "x.", "x.$", "x.$.", "-", "+"] {
        v.push(s.to_string());
    }
    for kw in ["seq", "par", "xor"] {
        v.push(format!("{}(null){}", format!("({kw} (null) ").repeat(300), ")".repeat(300)));
    }
    v.push(format!("{}(null){}", "(new v ".repeat(300), ")".repeat(300)));
    v.push(format!("(call \"{p}\" (\"s\" \"f\") [] {})", "x".repeat(100_000)));
    v.push(format!("(call \"{p}\" (\"s\" \"f\") [{}])", "1 ".repeat(20_000)));
    v.push(format!("(call \"{p}\" (\"s\" \"f\") [{}])", "x".repeat(50_000)));
    v.push(format!("(seq {c} (call \"{p}\" (\"s\" \"g\") [a.$.{}]))", "a.".repeat(5000).trim_end_matches('.')));
    v
}

// ---------------------------------------------------------------------------------------------
// Walker self-test (sensitivity without touching the repository)

fn self_test() -> Vec<String> {
    let v = |n: &str| Val::Var(n.into());
    let call = |args: Vec<Val>, out: &str| Ins::Call { peer: Val::Lit("p".into()), service: Val::Lit("s".into()), func: Val::Lit("f".into()), args, out: if out.is_empty() { Out::None } else { Out::Scalar(out.into()) } };
    let fold_ = |iterable: &str, it: &str, body: Ins, last: Option<Ins>| Ins::Fold { iterable: v(iterable), it: it.into(), body: Box::new(body), last: last.map(Box::new) };
    let next = |n: &str| Ins::Next(n.into());
    let by = |base: &str, k: &str| Val::VarLens(base.into(), Lens::Path(vec![Acc::ByScalar(k.into())]));
    let a = || call(vec![], "a");
    let cases: Vec<(&str, bool, Ins)> = vec![
        ("def-then-use", true, seq(a(), call(vec![v("a")], ""))),
        ("use-then-def", false, seq(call(vec![v("a")], ""), a())),
        ("self-use", false, call(vec![v("a")], "a")),
        ("iterator-in-body", true, seq(a(), fold_("a", "i", seq(call(vec![v("i")], ""), next("i")), None))),
        ("iterator-after-its-fold", true, seq(a(), seq(fold_("a", "i", next("i"), None), call(vec![v("i")], "")))),
        ("iterator-before-its-fold", false, seq(a(), seq(call(vec![v("i")], ""), fold_("a", "i", next("i"), None)))),
        ("fold-over-own-iterator", false, fold_("i", "i", Ins::Null, None)),
        ("next-outside", false, seq(a(), seq(fold_("a", "i", next("i"), None), next("i")))),
        ("next-foreign-fold", false, seq(a(), seq(fold_("a", "i", next("i"), None), fold_("a", "j", next("i"), None)))),
        ("next-nested", true, seq(a(), fold_("a", "i", fold_("a", "j", seq(next("j"), next("i")), None), None))),
        ("next-in-last-instruction", true, seq(a(), fold_("a", "i", Ins::Null, Some(next("i"))))),
        ("canon-undefined-stream", true, Ins::Canon { peer: Val::Lit("p".into()), src: "$u".into(), dst: "#c".into() }),
        ("canon-undefined-peer", false, Ins::Canon { peer: v("u"), src: "$s".into(), dst: "#c".into() }),
        ("fail-undefined", false, Ins::Fail(FailBody::Val(v("u")))),
        ("ap-map-value-undefined", false, Ins::ApMap { key: Val::Lit("k".into()), value: v("u"), map: "%m".into() }),
        ("ap-map-key-undefined", false, Ins::ApMap { key: v("u"), value: Val::Int(1), map: "%m".into() }),
        ("lens-scalar-undefined", false, seq(a(), call(vec![by("a", "u")], ""))),
        ("lens-scalar-defined", true, seq(a(), seq(call(vec![], "k"), call(vec![by("a", "k")], "")))),
        ("error-lens-scalar-undefined", false, call(vec![Val::LastError(Some(Lens::Path(vec![Acc::ByScalar("u".into())])))], "")),
        ("new-defines", true, Ins::New("n".into(), Box::new(call(vec![v("n")], "")))),
        ("sigils-are-distinct", false, seq(Ins::Ap { arg: Val::Int(1), out: Out::Stream("$a".into()) }, call(vec![v("a")], ""))),
        ("match-undefined", false, Ins::Match(Val::Int(1), v("u"), Box::new(Ins::Null))),
        ("fold-stream-undefined", false, fold_("$u", "i", next("i"), None)),
        ("builtins", true, call(vec![Val::InitPeer, Val::LastError(None), Val::Error(None), Val::Timestamp, Val::Ttl], "")),
    ];
    let mut bad = vec![];
    for (name, well, t) in cases {
        if scope_errors(&t).is_empty() != well {
            bad.push(format!("scoping walker self-test `{name}` misclassified (expected well-scoped = {well}): {}", t.text()));
        }
    }
    if sigil("#%cm1") != "#%" || sigil("x") != "" || tokens("(ap [] $s)").len() != 6 {
        bad.push("helper self-test failed (sigil/tokens)".into());
    }
    bad
}

/// `air_parser::parse` prints every error report to stderr as well; silence fd 2 while the check
/// runs (unless VCHECK_PANIC_VERBOSE is set) -- a million reports are only noise.
struct Quiet(i32);
impl Quiet {
    fn new() -> Quiet {
        if std::env::var("VCHECK_PANIC_VERBOSE").is_ok() {
            return Quiet(-1);
        }
        unsafe {
            let saved = libc::dup(2);
            let null = libc::open(b"/dev/null\0".as_ptr() as *const libc::c_char, libc::O_WRONLY);
            if saved >= 0 && null >= 0 {
                libc::dup2(null, 2);
                libc::close(null);
            }
            Quiet(saved)
        }
    }
}
impl Drop for Quiet {
    fn drop(&mut self) {
        if self.0 >= 0 {
            unsafe {
                libc::dup2(self.0, 2);
                libc::close(self.0);
            }
        }
    }
}

// ---------------------------------------------------------------------------------------------

const TEXTS_PER_CASE: u64 = 200;

fn one_case(cfg: &Cfg, case: u64, peers: &[String], fixed: &[String], st: &mut Stats) {
    let mut rng = Rng::derive(cfg.seed, 0xC23, case);
    let start = st.get("texts");
    let done = |st: &Stats| st.get("texts") - start >= TEXTS_PER_CASE;
    // two hand-written texts per case (the first cases cover all of them) and mutants of them
    for k in 0..2 {
        let f = &fixed[(2 * case as usize + k) % fixed.len()];
        judge(f, "fixed", None, None, case, st);
        judge(&mutate_chars(&mut rng, f), "fixed-mutated", None, None, case, st);
        judge(&mutate_tokens(&mut rng, f), "fixed-mutated", None, None, case, st);
    }
    while !done(st) {
        let budget = *rng.pick(&[3usize, 6, 10, 16, 25, 40]);
        let script = generate(&mut rng, &GenCfg::fstream(peers.len(), budget), peers);
        let base_errs = scope_errors(&script.ins);
        if !base_errs.is_empty() {
            // the generator is meant to be well scoped; the walker stays the oracle either way
            st.inc("generated_ill_scoped_by_walker", 1);
            st.label("generated_ill_scoped_sample", &trunc(&format!("{:?} in {}", base_errs[0], script.air), 600));
        }
        if judge(&script.air, "generated", Some(&script.ins), None, case, st) == Some(false) && base_errs.is_empty() {
            st.inc("generated_valid_rejected", 1);
            if st.get("generated_valid_rejected") <= 2 {
                st.label("generated_valid_rejected_sample", &trunc(&script.air, 1200));
            }
        }
        if !base_errs.is_empty() {
            continue;
        }
        for kind in INJECTIONS {
            let Some(t) = inject(&mut rng, &script.ins, kind, &peers[0]) else {
                st.inc(&format!("injection_not_applicable[{kind}]"), 1);
                continue;
            };
            if scope_errors(&t).is_empty() {
                // still well scoped: a structural mutant with a known tree, no expectation on the verdict
                judge(&t.text(), "structural", Some(&t), None, case, st);
            } else {
                st.inc("injected", 1);
                if judge(&t.text(), &format!("injected:{kind}"), Some(&t), Some(kind), case, st) == Some(false) {
                    st.inc("injected_rejected", 1);
                }
            }
        }
        for _ in 0..4 {
            judge(&mutate_tokens(&mut rng, &script.air), "mutated-tokens", None, None, case, st);
            judge(&mutate_chars(&mut rng, &script.air), "mutated-chars", None, None, case, st);
        }
        judge(&soup(&mut rng), "token-soup", None, None, case, st);
        judge(&random_bytes(&mut rng), "random-bytes", None, None, case, st);
    }
}

pub fn run(cfg: &Cfg) -> Report {
    let n_cases = cfg.scale(100, 5000);
    let peers = crate::sim::standard_peer_ids(3);
    let fixed = fixed_texts(&peers[0]);
    let self_test_failures = self_test();
    let mut stats = {
        let _quiet = Quiet::new();
        par_cases(cfg, n_cases, |case, st| one_case(cfg, case, &peers, &fixed, st))
    };
    stats.inconclusive.extend(self_test_failures);
    let rejected_valid = stats.get("generated_valid_rejected");
    if rejected_valid * 100 > stats.get("texts[generated]") {
        let sample: Vec<String> = stats.labels.get("generated_valid_rejected_sample").map(|s| s.iter().take(3).cloned().collect()).unwrap_or_default();
        stats.inconclusive.push(format!("{rejected_valid} of {} generated valid scripts were rejected by the parser (harness generator/printer error?), e.g. {sample:?}", stats.get("texts[generated]")));
    }
    if stats.get("odd_tree_operands_differ") > 0 {
        let sample = stats.labels.get("odd_tree_operands_differ_sample").and_then(|s| s.iter().next().cloned()).unwrap_or_default();
        stats.inconclusive.push(format!("{} accepted generated scripts: same instruction kinds but different operands than the printed tree (printer/converter disagreement?), e.g. {sample}", stats.get("odd_tree_operands_differ")));
    }
    if cfg.only_case.is_none() && stats.get("injected") > 0 && stats.get("injected_rejected") == 0 {
        stats.inconclusive.push("no injected scoping error was rejected: the injections do not reach the validator".into());
    }
    Report {
        prop: "C23",
        level: "exploration",
        stats,
        evaluations_key: "texts",
        nontrivial_key: "nontrivial",
        rule: "texts parsed by air_parser::parse under a panic guard: scripts from the harness generator (streams, maps, canons, folds, new, lenses), the same trees with one injected scoping error (a use renamed to an undefined name, seq/par/xor children swapped so a use precedes its only definition, a `next` renamed to a foreign/fresh iterator, a stray `next` outside every fold, a later fold's iterator used before that fold, a call using its own output), structural mutants that stay well scoped, token- and character-level mutants (delete/insert/replace/swap/duplicate/truncate, multi-byte characters at token boundaries / inside names / inside lenses / inside string literals, unbalanced brackets, i64/f64 overflow literals, very long names, fail 0), token soup, random byte strings (from_utf8_lossy) and a hand-written list (every operand position with an undefined variable, clashes, unicode lenses, number edge cases, nesting 300). Every accepted tree is converted to the harness AST (fails on Instruction::Error / ValueAccessor::Error) and walked by an independent scoping walker; for printed trees the walker runs on the harness tree and the parser's tree must have the same instruction kinds in pre-order. evaluations = texts parsed and judged; non-trivial = distinct texts (fnv) that were accepted with >= 3 instructions or carry an injected scoping error confirmed by the walker".into(),
        assumptions: vec![
            "text order = pre-order instruction index: a use is 'defined earlier' iff a defining instruction (call output, ap result, ap-map's map, canon result incl. scalar, new argument, fold iterator) has a smaller pre-order index than the using instruction; a use inside the defining instruction itself ((call p (s f) [x] x), (fold x x ..)) is NOT defined earlier".into(),
            "a fold iterator counts as defined from its fold instruction onwards, also after and outside that fold (the statement says 'defined earlier in the text OR an enclosing fold iterator')".into(),
            "'enclosing fold' for next and for iterator uses = textually inside the fold instruction, in its body or in its last instruction (validator.rs find_closest_fold_span uses the whole fold span)".into(),
            "the source stream/map operand of canon is exempt (validator.rs met_canon: an undefined stream canonicalises as empty); canon's peer operand is a use".into(),
            "%init_peer_id%, %last_error%, :error:, %timestamp%, %ttl% are not variables, but a scalar inside their lens (.[name]) is a use; names with different sigils are different variables".into(),
            "checks the validator makes beyond the statement (several next per fold, new on an iterator, instruction after next in stream folds, iterator redefinition, fail 0) are not demanded: a rejection is never a violation".into(),
            "generated valid scripts rejected by the parser are counted as harness errors (inconclusive above 1%), not violations".into(),
        ],
    }
}
