//! C07: re-delivering already merged data changes nothing.
use super::honest::*;
use crate::invoke::*;
use crate::proj;
use crate::report::*;
use crate::rng::fnv;
use serde_json::json;

pub fn run(cfg: &Cfg) -> Report {
    let n = cfg.scale(700, 15000);
    let stats = run_honest(cfg, 7, n, &[Frag::Seq, Frag::Stream, Frag::Stream], |c, case, _rng, st| {
        let w = &c.world;
        for s in &c.history.steps {
            let class = s.class();
            if !matches!(class, CodeClass::Success | CodeClass::Catchable) {
                continue;
            }
            let cv = match &s.out_v {
                Some(v) => v,
                None => continue,
            };
            let ctrace = proj::trace(cv);
            let variants: [(&str, &Vec<u8>); 4] = [("b", &s.input.cur), ("a", &s.input.prev), ("c", &s.out.data), ("empty", &Vec::new())];
            for (name, cur) in variants {
                let mut input = w.input(&w.peers[s.peer]);
                input.prev = s.out.data.clone();
                input.cur = cur.clone();
                let o = invoke(&input);
                st.inc("redeliveries", 1);
                if class == CodeClass::Catchable {
                    st.inc("redeliveries_after_catchable", 1);
                }
                if !ctrace.is_empty() && !cur.is_empty() {
                    st.seen("nontrivial_redeliveries", fnv(&s.out.data) ^ fnv(cur).rotate_left(17));
                }
                let mut problem: Option<(String, String)> = None;
                if classify(o.ret_code) != class {
                    problem = Some((format!("code-class-changed@{name}"), format!("redelivery of {name} ended with code {} ({}) instead of class {:?}", o.ret_code, proj::trunc(&o.error_message, 120), class)));
                } else {
                    match proj::decode(&o.data) {
                        Ok(v) => {
                            if proj::trace(&v.data) != ctrace {
                                problem = Some((format!("trace-changed@{name}"), format!("redelivery of {name} changed the trace: {:?} -> {:?}", proj::render_trace(cv), proj::render_trace(&v.data))));
                            }
                        }
                        Err(e) => problem = Some((format!("undecodable@{name}"), e)),
                    }
                    if problem.is_none() {
                        if let Ok(r) = &o.requests {
                            if !r.is_empty() {
                                problem = Some((format!("call-requests@{name}"), format!("redelivery of {name} issued call requests {:?}", r.keys().collect::<Vec<_>>())));
                            }
                        }
                    }
                    if problem.is_none() && !o.next_peers.is_empty() {
                        problem = Some((format!("next-peers@{name}"), format!("redelivery of {name} sends the particle to {:?}", o.next_peers.iter().map(|p| w.peer_name(p)).collect::<Vec<_>>())));
                    }
                }
                if let Some((sig, what)) = problem {
                    let sig = if class == CodeClass::Catchable { format!("{sig}@after-catchable") } else { sig };
                    st.violation("C07", &sig, &format!("step {} at {}: {what}", s.idx, w.peers[s.peer].name), case, json!({"step": s.idx, "variant": name, "history": history_sample(c, 40)}));
                }
            }
        }
    });
    Report {
        prop: "C07",
        level: "exploration",
        stats,
        evaluations_key: "redeliveries",
        nontrivial_key: "nontrivial_redeliveries",
        rule: "at every non-failing step (a,b)->c of generated honest histories the peer is run again with previous data c and current data b, a, c and nothing, without call results; the decoded trace must equal c's, with no call requests and no next peers; non-trivial = c's trace and the redelivered data are non-empty; distinct by (c, redelivered data)".into(),
        assumptions: vec![],
    }
}
