//! C04: honest executions never hit data-consistency errors, whatever the schedule.
use super::honest::*;
use crate::report::*;
use crate::rng::{fnv, Rng};
use crate::sim::*;
use serde_json::json;

fn check_history(w: &World, h: &History, case: u64, st: &mut Stats) {
    let bad = crate::errcodes::consistency_set();
    for s in &h.steps {
        st.inc("runs_checked", 1);
        if is_real_merge(s) {
            st.seen("real_merges", super::c02::input_hash(&s.input));
        }
        if bad.contains(&s.out.ret_code) || s.out.ret_code == crate::invoke::PANIC_CODE {
            let name = crate::errcodes::table().name(s.out.ret_code);
            st.violation(
                "C04",
                &format!("consistency-error@{name}"),
                &format!("honest run at {} (step {}) failed with {} {}: {}", w.peers[s.peer].name, s.idx, s.out.ret_code, name, crate::proj::trunc(&s.out.error_message, 240)),
                case,
                json!({"step": s.idx, "history": describe(w, h, 60)}),
            );
        }
    }
}

pub fn run(cfg: &Cfg) -> Report {
    let n = cfg.scale(2000, 50000);
    let mut stats = run_honest(cfg, 4, n, &[Frag::Seq, Frag::Stream, Frag::Stream], |c, case, _rng, st| {
        check_history(&c.world, &c.history, case, st);
    });
    // bounded-exhaustive schedules for small scripts
    let ex = par_cases(cfg, cfg.scale(60, 500), |case, st| {
        let mut rng = Rng::derive(cfg.seed, 0x4e4, case);
        let frag = if rng.chance(1, 2) { Frag::Seq } else { Frag::Stream };
        let mut g = mk_gen(&mut rng, frag, false);
        g.budget = rng.range(4, 8);
        g.n_peers = 3;
        let ids = standard_peer_ids(g.n_peers);
        let sc = crate::gen::generate(&mut rng, &g, &ids);
        let w = World::new(g.n_peers, sc.air.clone(), Some(sc.ins), &format!("ex-{}-{case}", cfg.seed), 2);
        let budget = cfg.scale(1500, 20000) as usize;
        let mut local = Stats::default();
        let (states, hists, truncated) = explore_exhaustive(&w, budget, 40, &mut |h| {
            local.inc("exhaustive_histories", 1);
            local.seen("schedules", h.decisions_hash());
            check_history(&w, h, case + 1_000_000, &mut local);
        });
        local.inc("exhaustive_scripts", 1);
        local.inc("exhaustive_states", states as u64);
        let _ = hists;
        if truncated {
            local.inc("exhaustive_truncated_by_state_budget", 1);
        } else {
            local.inc("exhaustive_complete", 1);
        }
        local.seen("scripts", fnv(w.air.as_bytes()));
        st.merge(local);
    });
    stats.merge(ex);
    Report {
        prop: "C04",
        level: "exploration",
        stats,
        evaluations_key: "runs_checked",
        nontrivial_key: "real_merges",
        rule: "every run of honest histories (generated well-scoped scripts over 3-5 peers, random schedules with duplication and late/batched call results, plus bounded-exhaustive schedule exploration of small scripts executing the real interpreter at every edge); a run is non-trivial when it merges two non-empty, different traces; violation = any data-consistency error code (table derived from the error enums)".into(),
        assumptions: vec!["consistency-code set: preparation {data/envelope decode, CID store, signature, version, call results decode}, uncatchable {trace handler, compaction, int conversion, result/instruction mismatch, CID lookup, generation, malformed failure, parameter mismatch, signing, fold state}".into()],
    }
}
