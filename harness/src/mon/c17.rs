//! C17: security tetraplets describe where each argument came from. For every request that the
//! sequential reference matches (C16 machinery), the tetraplets handed to the host must name the
//! peer, service and function that produced each argument and the lens applied to it; plus a
//! directed workload for canon stream arguments, whose elements keep their own origin.
use super::c16::{match_requests, reference};
use super::honest::*;
use crate::oracle::seqsem::{parse_lens, Tet};
use crate::report::*;
use crate::rng::fnv;
use serde_json::json;

/// None if the tetraplet agrees; Some(field) otherwise. A lens accessor taken from a scalar may be
/// printed as written (`[i]`) or resolved (`[1]`); `.$` markers are not significant.
fn differs(actual: &(String, String, String, String), exp: &Tet) -> Option<&'static str> {
    if actual.0 != exp.peer {
        return Some("peer");
    }
    if actual.1 != exp.service {
        return Some("service");
    }
    if actual.2 != exp.function {
        return Some("function");
    }
    let acc = parse_lens(&actual.3);
    if acc.len() != exp.lens.len() {
        return Some("lens");
    }
    for (a, e) in acc.iter().zip(&exp.lens) {
        if *a != e.written && *a != e.resolved {
            return Some("lens");
        }
    }
    None
}

pub fn run(cfg: &Cfg) -> Report {
    let n = cfg.scale(3000, 60_000);
    let mut stats = run_honest(cfg, 16, n, &[Frag::SeqStrict], |c, case, _rng, st| {
        let Some(r) = reference(c, st) else { return };
        let w = &c.world;
        let mut judged = 0u64;
        match_requests(c, &r, case, st, false, |q, cands, step, st| {
            st.inc("requests_matched", 1);
            if q.tetraplets.len() != q.args.len() {
                st.violation("C17", "tetraplet-count-differs-from-argument-count", &format!("step {step}: {} has {} arguments but {} tetraplet lists", q.function, q.args.len(), q.tetraplets.len()), case, json!({"step": step, "history": history_sample(c, 40)}));
                return;
            }
            // the request is right if it agrees with one of the reference calls of the same key
            let mut first_problem: Option<(usize, &'static str, String)> = None;
            let ok = cands.iter().any(|rc| {
                for (i, exp) in rc.tets.iter().enumerate() {
                    if exp.lens.last().map(|a| a.written == "length").unwrap_or(false) {
                        // functors are outside the property's list: information only
                        continue;
                    }
                    let got = &q.tetraplets[i];
                    if got.len() != 1 {
                        first_problem.get_or_insert((i, "count", format!("{} tetraplets for a scalar argument", got.len())));
                        return false;
                    }
                    if let Some(field) = differs(&got[0], exp) {
                        first_problem.get_or_insert((i, field, format!("got ({}, {:?}, {:?}, {:?}), expected ({}, {:?}, {:?}, {:?})", w.peer_name(&got[0].0), got[0].1, got[0].2, got[0].3, w.peer_name(&exp.peer), exp.service, exp.function, exp.lens.iter().map(|a| a.written.clone()).collect::<Vec<_>>().join("."))));
                        return false;
                    }
                }
                true
            });
            for rc in cands.iter().take(1) {
                for (i, exp) in rc.tets.iter().enumerate() {
                    st.inc("argument_tetraplets_checked", 1);
                    let kind = if exp.lens.last().map(|a| a.written == "length").unwrap_or(false) {
                        "functor(info)"
                    } else if exp.service.is_empty() {
                        "literal-or-builtin"
                    } else if exp.lens.is_empty() {
                        "whole-result"
                    } else if exp.lens.iter().any(|a| a.written != a.resolved) {
                        "lens-with-scalar-accessor"
                    } else {
                        "lens"
                    };
                    st.label("argument_kinds", kind);
                    if exp.peer != w.peers[c.history.steps[step].peer].id && !exp.service.is_empty() {
                        st.inc("arguments_produced_on_another_peer", 1);
                    }
                    let _ = i;
                }
            }
            judged += 1;
            if !ok {
                let (i, field, what) = first_problem.unwrap_or((0, "?", String::new()));
                st.violation("C17", &format!("tetraplet-{field}-differs"), &format!("step {step}: argument {i} of {}: {what}", q.function), case, json!({"step": step, "history": history_sample(c, 40)}));
            }
        });
        if judged >= 2 {
            st.seen("judged_histories", fnv(c.world.air.as_bytes()) ^ c.history.decisions_hash());
        }
    });
    stats.merge(super::c17canon::run_canon(cfg));
    Report {
        prop: "C17",
        level: "exploration",
        stats,
        evaluations_key: "argument_tetraplets_checked",
        nontrivial_key: "judged_histories",
        rule: "the C16 workload (scripts of the sequential fragment as multi-peer histories): for every request matched by the reference evaluator, every argument's tetraplet must equal the provenance the evaluator carries (literal/built-in => init peer with empty service and function; scalar => producing peer, service, function; lens => the accessor sequence, scalar accessors accepted as written or resolved; fold iterator => iterable's tetraplet plus the element index), wherever the value was produced; plus generated canon-stream scripts whose elements must keep their own origin. Distinct non-trivial = distinct (script, schedule) pairs with at least two judged requests".into(),
        assumptions: vec![
            "lenses are compared as accessor sequences: the `.$` markers are not significant".into(),
            "a scalar accessor may be reported as written (`[i]`) or resolved (`[1]`)".into(),
            "functor arguments (.length) are outside the property's list and only counted".into(),
        ],
    }
}
