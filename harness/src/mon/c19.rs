//! C19: calls run only where addressed; the particle is forwarded exactly where needed.
use super::honest::*;
use crate::ast::{Ins, Val};
use crate::invoke::*;
use crate::proj::{self, St};
use crate::report::*;
use crate::sim::*;
use serde_json::{json, Value};
use std::collections::{BTreeMap, BTreeSet};

/// function name -> literal target peer id (only for calls whose target is a literal or %init_peer_id%)
fn literal_targets(w: &World) -> BTreeMap<String, String> {
    let mut m = BTreeMap::new();
    if let Some(ins) = &w.script {
        ins.walk(&mut |i| {
            if let Ins::Call { peer, func: Val::Lit(f), .. } = i {
                match peer {
                    Val::Lit(p) => {
                        m.insert(f.clone(), p.clone());
                    }
                    Val::InitPeer => {
                        m.insert(f.clone(), w.peers[0].id.clone());
                    }
                    _ => {}
                }
            }
        });
    }
    m
}

fn result_cids(data: &Value) -> BTreeMap<String, u64> {
    let mut m = BTreeMap::new();
    for s in proj::states(data) {
        match s {
            St::CallExec { kind, cid, .. } if kind != "unused" => *m.entry(format!("call:{cid}")).or_default() += 1,
            St::CallFailed(cid) => *m.entry(format!("call:{cid}")).or_default() += 1,
            St::CanonExec(cid) => *m.entry(format!("canon:{cid}")).or_default() += 1,
            _ => {}
        }
    }
    m
}

fn count_forwarded_by(data: &Value, peer: &str) -> u64 {
    proj::states(data).iter().filter(|s| matches!(s, St::CallSent(p, None) if p == peer) || matches!(s, St::CanonSent(p) if p == peer)).count() as u64
}

pub fn leftover_sent(data: &Value) -> Vec<String> {
    proj::states(data)
        .iter()
        .enumerate()
        .filter_map(|(i, s)| match s {
            St::CallSent(p, id) => Some(format!("{i}:call sent_by({},{:?})", proj::short(p), id)),
            St::CanonSent(p) => Some(format!("{i}:canon sent_by({})", proj::short(p))),
            _ => None,
        })
        .collect()
}

/// merge the final data of all peers at the observer
pub fn merge_at_observer(w: &World, datas: &[std::rc::Rc<Vec<u8>>]) -> Result<Vec<u8>, String> {
    let mut prev: Vec<u8> = vec![];
    for d in datas {
        if d.is_empty() {
            continue;
        }
        let mut input = w.input(&w.observer);
        input.prev = prev.clone();
        input.cur = (**d).clone();
        let o = invoke(&input);
        if !matches!(classify(o.ret_code), CodeClass::Success | CodeClass::Catchable) {
            return Err(format!("observer merge failed with {} {}", o.ret_code, proj::trunc(&o.error_message, 200)));
        }
        prev = o.data;
    }
    Ok(prev)
}

pub fn run(cfg: &Cfg) -> Report {
    let n = cfg.scale(1500, 40000);
    let stats = run_honest(cfg, 19, n, &[Frag::SeqNoFail, Frag::StreamNoFail, Frag::Seq, Frag::Stream], |c, case, _rng, st| {
        let w = &c.world;
        let lit = literal_targets(w);
        for s in &c.history.steps {
            st.inc("runs_checked", 1);
            let me = &w.peers[s.peer].id;
            // next peers: no duplicates, never the current peer
            let set: BTreeSet<&String> = s.out.next_peers.iter().collect();
            if set.len() != s.out.next_peers.len() {
                st.violation("C19", "next-peers-duplicate", &format!("step {}: next peers contain a duplicate: {:?}", s.idx, s.out.next_peers), case, json!({"step": s.idx, "history": history_sample(c, 40)}));
            }
            if s.out.next_peers.iter().any(|p| p == me) {
                st.violation("C19", "next-peers-contain-self", &format!("step {}: {} names itself as next peer", s.idx, w.peers[s.peer].name), case, json!({"step": s.idx, "history": history_sample(c, 40)}));
            }
            // requests only for calls addressed to this peer (literal targets: from the script text)
            if let Ok(reqs) = &s.out.requests {
                for (id, r) in reqs {
                    st.inc("requests_checked", 1);
                    if let Some(t) = lit.get(&r.function) {
                        st.inc("requests_with_literal_target_checked", 1);
                        if t != me {
                            st.violation("C19", "request-for-call-addressed-elsewhere", &format!("step {}: {} issued request {id} for {} which the script addresses to {}", s.idx, w.peers[s.peer].name, r.function, w.peer_name(t)), case, json!({"step": s.idx, "history": history_sample(c, 40)}));
                        }
                    }
                }
            }
            if !s.produced_new_data() {
                continue;
            }
            let (Some(pv), Some(cv), Some(ov)) = (&s.prev_v, &s.cur_v, &s.out_v) else { continue };
            // results that are new in this run were produced here: they must be attributed to this peer
            let (kp, kc, ko) = (result_cids(pv), result_cids(cv), result_cids(ov));
            for (k, cnt) in &ko {
                let before = kp.get(k).cloned().unwrap_or(0).max(kc.get(k).cloned().unwrap_or(0));
                if *cnt > before {
                    st.inc("new_results_checked", 1);
                    let cid = k.split(':').nth(1).unwrap_or("");
                    let owner = if k.starts_with("call:") {
                        proj::service_result(ov, cid).and_then(|(_, t, _)| t["peer_pk"].as_str().map(|x| x.to_string()))
                    } else {
                        proj::canon_result(ov, cid).and_then(|(t, _)| t["peer_pk"].as_str().map(|x| x.to_string()))
                    };
                    if owner.as_deref() != Some(me.as_str()) {
                        let what = if k.starts_with("call:") { "call-executed-at-wrong-peer" } else { "canon-executed-at-wrong-peer" };
                        st.violation("C19", what, &format!("step {}: {} newly recorded result {} which is attributed to {:?}", s.idx, w.peers[s.peer].name, proj::short(cid), owner.map(|o| w.peer_name(&o))), case, json!({"step": s.idx, "history": history_sample(c, 40)}));
                    }
                    if k.starts_with("canon:") {
                        st.inc("new_canon_results_checked", 1);
                    }
                }
            }
            // a run that newly marks something as sent to another peer names a next peer
            let fwd_before = count_forwarded_by(pv, me).max(count_forwarded_by(cv, me));
            let fwd_after = count_forwarded_by(ov, me);
            if fwd_after > fwd_before {
                st.inc("runs_forwarding_to_other_peers", 1);
                st.seen("forwarding_runs", crate::mon::c02::input_hash(&s.input));
                if s.out.next_peers.is_empty() {
                    st.violation("C19", "sent-without-next-peer", &format!("step {}: {} newly marked {} call/canon state(s) as sent to another peer but names no next peer", s.idx, w.peers[s.peer].name, fwd_after - fwd_before), case, json!({"step": s.idx, "history": history_sample(c, 40)}));
                }
            }
        }
        // end to end: at quiescence nothing remains marked as sent but unexecuted
        if c.history.quiescent && c.history.dropped_unknown == 0 && matches!(c.frag, Frag::SeqNoFail | Frag::StreamNoFail) {
            let all_ok = c.history.steps.iter().all(|s| s.class() == CodeClass::Success);
            if !all_ok {
                st.inc("quiescent_histories_with_failures_excluded", 1);
                return;
            }
            match merge_at_observer(w, &c.history.final_datas()) {
                Ok(d) => {
                    st.inc("quiescent_histories_merged_at_observer", 1);
                    if let Ok(v) = proj::decode(&d) {
                        // states written by the observer during the merge itself are not part of the history
                        let obs = proj::short(&w.observer.id).to_string();
                        let left: Vec<String> = leftover_sent(&v.data).into_iter().filter(|l| !l.contains(&format!("sent_by({obs}"))).collect();
                        if !left.is_empty() {
                            st.violation("C19", "sent-but-never-executed-at-quiescence", &format!("all particles and call results were delivered, yet the merged data still has {} state(s) marked as sent: {:?}", left.len(), left.iter().take(5).collect::<Vec<_>>()), case, json!({"history": history_sample(c, 80), "merged_trace": proj::render_trace(&v.data)}));
                        }
                    }
                }
                Err(e) => st.inconclusive.push(format!("case {case}: {e}")),
            }
        } else if c.history.cut {
            st.inc("histories_cut_excluded_from_quiescence_check", 1);
        }
    });
    Report {
        prop: "C19",
        level: "exploration",
        stats,
        evaluations_key: "runs_checked",
        nontrivial_key: "forwarding_runs",
        rule: "every run of generated honest histories (literal, variable, lens-selected and init-peer targets): next peers have no duplicate and never the current peer; a request for a call with a literal target is issued only at that target; every call/canon result that is new in a run is attributed to the running peer; a run that newly marks call/canon states as sent by itself names at least one next peer; for failure-free scripts whose history reached quiescence, the final data of all peers merged at an observer contains no call or canon still marked as sent. Non-trivial = runs that forward to another peer; distinct by input hash".into(),
        assumptions: vec![
            "the quiescence clause is judged on scripts generated without failing instructions and without `never` (a failed or blocked branch legitimately leaves later calls unexecuted); histories cut by the 200-step bound are excluded and counted".into(),
            "the target of a sent state is not recorded in the trace, so the per-run clause checks that some next peer is named; the end-to-end clause decides that every needed peer was reached".into(),
        ],
    }
}
