//! C21: current data produced by an interpreter older than the minimal supported version is rejected
//! before execution; data of supported versions is not rejected for its version; empty current data
//! is treated as empty data.
use super::honest::*;
use crate::invoke::*;
use crate::proj;
use crate::report::*;
use crate::rng::{fnv, Rng};
use serde_json::{json, Value};
use std::cmp::Ordering::{self, *};

// ---------- hand-written semver 2.0 precedence (the oracle; the `semver` crate is not consulted) ----------

#[derive(Clone, Debug, PartialEq)]
pub struct V {
    core: [u64; 3],
    pre: Vec<String>,
}

pub fn parse(s: &str) -> Option<V> {
    let s = s.split('+').next()?; // build metadata takes no part in precedence
    let (core, pre) = match s.split_once('-') {
        Some((c, p)) => (c, p.split('.').map(String::from).collect()),
        None => (s, vec![]),
    };
    let n: Vec<u64> = core.split('.').map(|x| x.parse().ok()).collect::<Option<_>>()?;
    (n.len() == 3).then(|| V { core: [n[0], n[1], n[2]], pre })
}

pub fn precedence(a: &V, b: &V) -> Ordering {
    for i in 0..3 {
        if a.core[i] != b.core[i] {
            return if a.core[i] < b.core[i] { Less } else { Greater };
        }
    }
    match (a.pre.is_empty(), b.pre.is_empty()) {
        (true, true) => return Equal,
        (true, false) => return Greater, // a release is higher than any of its pre-releases
        (false, true) => return Less,
        _ => {}
    }
    let num = |s: &String| if s.bytes().all(|c| c.is_ascii_digit()) { s.parse::<u64>().ok() } else { None };
    for (x, y) in a.pre.iter().zip(&b.pre) {
        let o = match (num(x), num(y)) {
            (Some(p), Some(q)) => p.cmp(&q),
            (Some(_), None) => Less, // numeric identifiers are lower than alphanumeric ones
            (None, Some(_)) => Greater,
            (None, None) => x.as_bytes().cmp(y.as_bytes()),
        };
        if o != Equal {
            return o;
        }
    }
    a.pre.len().cmp(&b.pre.len()) // all shared identifiers equal: the shorter list is lower
}

fn self_test() -> Vec<String> {
    let mut bad = vec![];
    let p = |s: &str| parse(s).unwrap_or(V { core: [u64::MAX; 3], pre: vec!["unparsable".into()] });
    // ordered chains from semver.org 2.0.0 section 11 (+ numeric/alphanumeric and length rules)
    let chains: [&[&str]; 4] = [
        &["1.0.0-alpha", "1.0.0-alpha.1", "1.0.0-alpha.beta", "1.0.0-beta", "1.0.0-beta.2", "1.0.0-beta.11", "1.0.0-rc.1", "1.0.0", "2.0.0", "2.1.0", "2.1.1"],
        &["0.0.0", "0.0.1", "0.1.0", "0.9.10", "0.10.9", "0.60.999", "0.61.0-0", "0.61.0-1", "0.61.0-10", "0.61.0-9a", "0.61.0-alpha", "0.61.0-rc.1", "0.61.0", "0.61.1-0", "0.61.1", "0.62.0", "1.0.0", "4294967295.0.0"],
        &["1.0.0-0", "1.0.0-0.0", "1.0.0-1", "1.0.0-A", "1.0.0-a", "1.0.0-a.0", "1.0.0-a.a", "1.0.0-b"],
        &["1.2.2", "1.2.3-rc.1+zzz", "1.2.3-rc.2", "1.2.3+aaa", "1.2.4-0", "1.3.0-0", "2.0.0-0"],
    ];
    for c in chains {
        for i in 0..c.len() {
            for j in 0..c.len() {
                if precedence(&p(c[i]), &p(c[j])) != i.cmp(&j) {
                    bad.push(format!("precedence({}, {}) is not {:?}", c[i], c[j], i.cmp(&j)));
                }
            }
        }
    }
    for (a, b) in [("1.0.0", "1.0.0+b"), ("1.0.0+a", "1.0.0+b.1"), ("1.0.0-rc.1+a", "1.0.0-rc.1")] {
        if precedence(&p(a), &p(b)) != Equal {
            bad.push(format!("build metadata changes precedence: {a} vs {b}"));
        }
    }
    for s in ["1.0", "1.0.0.0", "a.b.c", ""] {
        if parse(s).is_some() {
            bad.push(format!("parse accepts {s:?}"));
        }
    }
    bad
}

/// (version text, sits within one step of the minimum)
fn version_grid(min: &V, min_text: &str, current: &str) -> Vec<(String, bool)> {
    let [ma, mi, pa] = min.core;
    let core = format!("{ma}.{mi}.{pa}");
    let mut near = vec![min_text.to_string(), format!("{core}+b"), format!("{core}-0"), format!("{core}-alpha"), format!("{core}-rc.1"), format!("{core}-rc.1+b")];
    if pa > 0 {
        near.push(format!("{ma}.{mi}.{}", pa - 1));
    }
    if pa < u64::MAX {
        near.extend([format!("{ma}.{mi}.{}", pa + 1), format!("{ma}.{mi}.{}-0", pa + 1)]);
    }
    if mi > 0 {
        near.extend([format!("{ma}.{}.{pa}", mi - 1), format!("{ma}.{}.{}", mi - 1, u64::MAX)]);
    }
    if mi < u64::MAX {
        near.extend([format!("{ma}.{}.0", mi + 1), format!("{ma}.{}.0-0", mi + 1)]);
    }
    if ma > 0 {
        near.extend([format!("{}.{mi}.{pa}", ma - 1), format!("{}.{}.{}", ma - 1, u64::MAX, u64::MAX)]);
    }
    if ma < u64::MAX {
        near.push(format!("{}.0.0", ma + 1));
    }
    let fixed = ["0.0.0", "0.60.9", "0.60.999", "0.61.0-0", "0.61.0-alpha", "0.61.0-rc.1", "0.61.0", "0.61.0+b", "0.61.1", "0.62.0", "1.0.0", "4294967295.0.0", current];
    let mut out: Vec<(String, bool)> = near.into_iter().map(|v| (v, true)).collect();
    for f in fixed {
        if !out.iter().any(|(v, _)| v == f) {
            out.push((f.to_string(), false));
        }
    }
    out
}

/// what is compared between two runs that must behave alike
fn view(o: &RunOutcome) -> (i64, Option<Value>, String, Vec<String>) {
    let mut np = o.next_peers.clone();
    np.sort();
    np.dedup();
    (o.ret_code, proj::decode(&o.data).ok().map(|d| d.data["trace"].clone()), format!("{:?}", o.requests), np)
}

fn differing_field(a: &RunOutcome, b: &RunOutcome) -> Option<&'static str> {
    let (x, y) = (view(a), view(b));
    [(x.0 != y.0, "ret_code"), (x.1 != y.1, "trace"), (x.2 != y.2, "call-requests"), (x.3 != y.3, "next-peers")].iter().find(|f| f.0).map(|f| f.1)
}

struct Ctx<'a> {
    min: &'a V,
    min_text: &'a str,
    grid: &'a [(String, bool)],
    unsupported: i64,
    case: u64,
}

/// Run `input` with `data` wrapped in every envelope of the grid and judge each run. `base` is the run
/// the supported versions have to agree with.
fn check_grid(cx: &Ctx, input: &RunInput, data: &Value, base: &RunOutcome, dvs: &[String], kind: &str, st: &mut Stats) {
    let ih = super::c02::input_hash(input);
    for (iv, near) in cx.grid {
        let v = match parse(iv) {
            Some(v) => v,
            None => {
                st.inconclusive.push(format!("harness: grid version {iv} does not parse"));
                continue;
            }
        };
        let ord = precedence(&v, cx.min);
        let rel = match ord {
            Less if v.core == cx.min.core => "pre-release-of-min",
            Less => "below-min",
            Equal => "min",
            Greater => "above-min",
        };
        for (k, dv) in dvs.iter().enumerate() {
            let cur = match proj::encode_with_versions(data, dv, iv) {
                Ok(b) => b,
                Err(e) => {
                    st.inconclusive.push(format!("harness: cannot re-wrap data with versions {dv}/{iv}: {e}"));
                    continue;
                }
            };
            let mut inp = input.clone();
            inp.cur = cur;
            let o = invoke(&inp);
            st.inc("runs_judged", 1);
            st.inc(&format!("runs[{kind},{rel}]"), 1);
            if *near {
                st.seen("boundary_points", ih ^ fnv(format!("{kind}|{iv}|{dv}").as_bytes()));
            }
            if o.ret_code == PANIC_CODE {
                st.inc("panics(C01 matter)", 1);
            }
            let detail = || {
                json!({"data_kind": kind, "air": input.air, "peer": input.peer_id, "interpreter_version_in_envelope": iv, "data_version_in_envelope": dv, "minimum": cx.min_text,
                    "hand_written_precedence_vs_minimum": format!("{ord:?}"), "got_ret_code": o.ret_code, "got_error": proj::trunc(&o.error_message, 300), "got_data_len": o.data.len(),
                    "got_next_peers": o.next_peers, "got_requests": format!("{:?}", o.requests), "prev_len": input.prev.len(), "base_ret_code": base.ret_code, "input": serde_json::to_value(&inp).unwrap_or_default()})
            };
            if cx.case < 3 && *near && k == 0 {
                st.sample(json!({"data_kind": kind, "envelope_interpreter_version": iv, "data_version": dv, "relation": rel, "ret_code": o.ret_code, "error": proj::trunc(&o.error_message, 120), "data_equals_prev": o.data == input.prev}));
            }
            if ord == Less {
                if o.ret_code != cx.unsupported {
                    st.violation("C21", &format!("old-version-not-rejected@{rel}"), &format!("{kind} data in an envelope of interpreter version {iv} (minimum {}, data version {dv}) was not rejected: ret_code {} {}", cx.min_text, o.ret_code, crate::errcodes::table().name(o.ret_code)), cx.case, detail());
                } else if o.data != input.prev {
                    st.violation("C21", "rejected-run-does-not-return-prev-data", &format!("version {iv} rejected, but the returned data ({} bytes) is not the previous data ({} bytes)", o.data.len(), input.prev.len()), cx.case, detail());
                } else if !o.next_peers.is_empty() || o.requests != Ok(Default::default()) {
                    st.violation("C21", "rejected-run-has-effects", &format!("version {iv} rejected, but the outcome carries next peers {:?} / requests {:?}", o.next_peers, o.requests), cx.case, detail());
                } else {
                    st.inc("rejected_as_expected", 1);
                }
                continue;
            }
            if o.ret_code == cx.unsupported {
                st.violation("C21", &format!("supported-version-rejected@{rel}"), &format!("{kind} data in an envelope of interpreter version {iv} (minimum {}, data version {dv}) was rejected: {}", cx.min_text, proj::trunc(&o.error_message, 200)), cx.case, detail());
                continue;
            }
            match (differing_field(base, &o), k == 0) {
                (None, true) => st.inc("supported_same_outcome", 1),
                (None, false) => st.inc("info:other_data_version_same_outcome", 1),
                (Some(f), true) => st.violation("C21", &format!("outcome-depends-on-supported-version-{f}@{rel}"), &format!("{kind} data with supported interpreter version {iv} gives a different {f} than the reference run (ret_code {} vs {})", o.ret_code, base.ret_code), cx.case, detail()),
                (Some(f), false) => {
                    st.inc("info:other_data_version_changes_outcome", 1);
                    st.label("info:other_data_version_effect", &format!("{dv}: {f}, code {}", o.ret_code));
                }
            }
        }
    }
}

pub fn run(cfg: &Cfg) -> Report {
    let n = cfg.scale(200, 5000);
    let min_text = air::min_supported_version().to_string();
    let current = air::interpreter_version().to_string();
    let dvs = vec![air_interpreter_data::data_version().to_string(), "0.0.1".to_string(), "99.0.0".to_string()];
    let failed = self_test();
    let min = parse(&min_text);
    let mut stats = match (&min, failed.is_empty()) {
        (Some(min), true) => {
            let grid = version_grid(min, &min_text, &current);
            let unsupported = crate::errcodes::table().code("Prep::UnsupportedInterpreterVersion");
            let empty = proj::decode(&[]).map(|d| d.data).unwrap_or_default();
            par_cases(cfg, n, |case, st| {
                let c = match guarded(|| build_case(cfg, 21, case, &[Frag::Seq, Frag::Stream])) {
                    Ok(Some(c)) => c,
                    Ok(None) => return st.inc("generator_rejected", 1),
                    Err((loc, msg)) => return st.inconclusive.push(format!("harness panic while building case {case}: {loc} {msg}")),
                };
                let mut rng = Rng::derive(cfg.seed ^ 0x5555, 21, case);
                let eligible: Vec<&crate::sim::Step> = c.history.steps.iter().filter(|s| !s.input.cur.is_empty() && s.out.ret_code != PANIC_CODE).collect();
                // without any delivered data the first run of the history still serves the empty-data part
                let s = match (eligible.is_empty(), c.history.steps.first()) {
                    (false, _) => *rng.pick(&eligible),
                    (true, Some(first)) => first,
                    _ => return st.inc("empty_histories", 1),
                };
                let cx = Ctx { min, min_text: &min_text, grid: &grid, unsupported, case };
                if s.input.cur.is_empty() {
                    st.inc("histories_without_current_data", 1);
                } else {
                    let data = match proj::decode(&s.input.cur) {
                        Ok(d) => d.data,
                        Err(e) => return st.inconclusive.push(format!("harness: honest current data does not decode: {e}")),
                    };
                    st.inc("sampled_data", 1);
                    st.seen("distinct_data", fnv(&s.input.cur));
                    st.label("reference_ret_code_classes", &format!("{:?}", s.class()));
                    check_grid(&cx, &s.input, &data, &s.out, &dvs, "honest", st);
                }
                // empty current data == explicitly encoded empty data (all versions of the grid, current data version)
                let mut e = s.input.clone();
                e.cur = vec![];
                let base = invoke(&e);
                st.label("empty_reference_ret_code_classes", &format!("{:?}", classify(base.ret_code)));
                st.inc("runs_judged", 1);
                if base.ret_code == unsupported {
                    st.violation("C21", "empty-current-data-rejected", &format!("a run with an empty byte string as current data was rejected for its version: {}", proj::trunc(&base.error_message, 200)), case, json!({"air": e.air, "input": serde_json::to_value(&e).unwrap_or_default()}));
                } else {
                    check_grid(&cx, &e, &empty, &base, &dvs[..1], "empty", st);
                }
            })
        }
        _ => Stats::default(),
    };
    for f in failed.iter().take(5) {
        stats.inconclusive.push(format!("oracle self-test failed: {f}"));
    }
    if min.is_none() {
        stats.inconclusive.push(format!("minimum supported version {min_text:?} is not read by the hand-written parser"));
    }
    Report {
        prop: "C21",
        level: "exploration",
        stats,
        evaluations_key: "runs_judged",
        nontrivial_key: "boundary_points",
        rule: format!("one run with non-empty current data is drawn from each generated honest history (prev data, peer, call results kept); its current data is decoded and re-wrapped in envelopes whose interpreter version ranges over a fixed grid plus the neighbours of the minimum read from air::min_supported_version() = {min_text} (itself, +build, pre-releases -0/-alpha/-rc.1, patch/minor/major one below and one above, pre-release of the successors) x data versions {dvs:?}, and the run is repeated; the same is done with explicitly encoded empty data against the run with an empty byte string (current data version only). Oracle: hand-written semver 2.0 precedence (self-tested on the chains of the specification): below the minimum => the unsupported-version code, data == prev bytes, no next peers, no requests; otherwise never that code, and (same data version) ret_code, decoded trace, call requests and next-peer set equal to the reference run. Non-trivial = distinct (input, envelope) whose interpreter version is one of the computed neighbours of the minimum."),
        assumptions: vec![
            "the data version of the envelope is not interpreted by the property: runs with data versions 0.0.1 / 99.0.0 are judged for rejection only, outcome differences are counted as information".into(),
            "re-encoding decoded data through the public serde implementation keeps its meaning (the reference run uses the original bytes)".into(),
        ],
    }
}
