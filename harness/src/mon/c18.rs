//! C18: xor catches exactly the catchable failures and reports them faithfully.
//!
//! Differential on one executing peer: every generated instruction F is placed in a generated
//! context K and run twice against the real interpreter, with a host that answers every request:
//!   uncaught  K[F]                       -> the run's result (code, message), or success
//!   caught    K[(xor F (call me ("svc" "obs") [:error:.$.error_code :error:.$.message ...]))]
//! Oracle: if the uncaught failure has a catchable code (10000..=19999) the observer call must be
//! requested and every observer request must carry exactly that code and message; if the uncaught
//! run fails with an uncatchable code the caught run must fail with the same code, return the
//! previous data and never request the observer; if the uncaught run succeeds or keeps waiting the
//! observer is never requested. Contexts that contain a `par` swallow a failing branch, so there the
//! expected (code, message) comes from the same F in the same context with each par turned into seq.
use crate::invoke::*;
use crate::report::*;
use crate::rng::{fnv, Rng};
use crate::sim::*;
use serde_json::{json, Value};
use std::collections::BTreeMap;

struct Failing {
    pre: Vec<String>,
    f: String,
    kind: &'static str,
    /// what the harness expects of this instruction (only controls are judged on it)
    expect: Expect,
}

#[derive(Clone, Copy, PartialEq, Debug)]
enum Expect {
    Catchable,
    Uncatchable,
    Succeeds,
    Waits,
}

struct Ids(usize);
impl Ids {
    fn next(&mut self) -> usize {
        self.0 += 1;
        self.0
    }
}

fn gen_failing(rng: &mut Rng, ids: &mut Ids, me: &str, other: &str, allow_overflow: bool) -> Failing {
    let n = ids.next();
    let call = |f: &str, args: &str, out: &str| format!("(call \"{me}\" (\"svc\" \"{f}\") [{args}]{}{out})", if out.is_empty() { "" } else { " " });
    let obj = |n: usize| (vec![call(&format!("f{n}"), "", &format!("v{n}"))], format!("v{n}"));
    let w = [14, 10, 6, 8, 8, 22, 6, 8, 4, 4, 5, 6, 1, 10, 8, 12, 10];
    match rng.weighted(&w) {
        0 => Failing { pre: vec![], f: call(&format!("e{n}"), "", if rng.chance(1, 2) { "" } else { "out" }).replace(" out)", &format!(" x{n})")), kind: "service-error", expect: Expect::Catchable },
        1 => Failing { pre: vec![], f: format!("(fail {} \"msg{n}\")", 1 + rng.below(20000)), kind: "fail-literal", expect: Expect::Catchable },
        2 => Failing { pre: vec![call(&format!("errobj{n}"), "", &format!("eo{n}"))], f: format!("(fail eo{n})"), kind: "fail-scalar", expect: Expect::Catchable },
        3 => {
            let inner = if rng.chance(1, 2) { format!("(fail {} \"inner{n}\")", 1 + rng.below(900)) } else { call(&format!("e{n}"), "", "") };
            let re = if rng.chance(1, 2) { "(fail :error:)" } else { "(fail %last_error%)" };
            Failing { pre: vec![], f: format!("(xor {inner} {re})"), kind: "rethrow", expect: Expect::Catchable }
        }
        4 => {
            let (pre, v) = obj(n);
            let f = match rng.below(5) {
                0 => "(match 1 2 (null))".to_string(),
                1 => "(mismatch \"a\" \"a\" (null))".to_string(),
                2 => format!("(match {v} 1 (null))"),
                3 => format!("(mismatch {v} {v} (null))"),
                _ => format!("(match {v}.$.tag \"no\" (null))"),
            };
            Failing { pre, f, kind: "match-mismatch", expect: Expect::Catchable }
        }
        5 => {
            let (pre, v) = obj(n);
            let lens = *rng.pick(&[".$.nope", ".$.a.b.[7]", ".$.[0]", ".$.tag.x", ".$.a.nope.deeper", ".$.a.b.[0].x"]);
            let f = match rng.below(6) {
                0 | 1 => call(&format!("g{n}"), &format!("{v}{lens}"), ""),
                2 => format!("(ap {v}{lens} y{n})"),
                3 => format!("(match {v}{lens} 1 (null))"),
                4 => format!("(fold {v}{lens} it{n} (seq (null) (next it{n})))"),
                _ => call(&format!("g{n}"), &format!("1 {v}{lens} {v}"), &format!("r{n}")),
            };
            Failing { pre, f, kind: "lens-error", expect: Expect::Catchable }
        }
        6 => {
            let (pre, v) = obj(n);
            let it = if rng.chance(1, 2) { v.clone() } else { format!("{v}.$.tag") };
            Failing { pre, f: format!("(fold {it} it{n} (seq (null) (next it{n})))"), kind: "fold-over-non-array", expect: Expect::Catchable }
        }
        7 => {
            let (pre, v) = obj(n);
            let f = match rng.below(3) {
                0 => format!("(call {v} (\"svc\" \"g{n}\") [])"),
                1 => format!("(call \"{me}\" ({v} \"g{n}\") [])"),
                _ => format!("(call \"{me}\" (\"svc\" {v}.$.a) [])"),
            };
            Failing { pre, f, kind: "non-string-triplet", expect: Expect::Catchable }
        }
        8 => {
            let (pre, v) = obj(n);
            Failing { pre, f: call(&format!("g{n}"), &format!("{v}.length"), ""), kind: "length-of-non-array", expect: Expect::Catchable }
        }
        9 => {
            let (pre, v) = obj(n);
            Failing { pre, f: format!("(ap ({v} \"val\") %m{n})"), kind: "map-key-type", expect: Expect::Catchable }
        }
        10 => {
            let pre = vec![format!("(ap \"one{n}\" $s{n})"), format!("(canon \"{me}\" $s{n} #can{n})")];
            let lens = *rng.pick(&[".$.[5]", ".$.[0].x", ".$.nope"]);
            Failing { pre, f: call(&format!("g{n}"), &format!("#can{n}{lens}"), ""), kind: "canon-lens-error", expect: Expect::Catchable }
        }
        11 => {
            // uncatchable: the same scalar defined twice in one scope
            Failing { pre: vec![call(&format!("f{n}"), "", &format!("dup{n}"))], f: call(&format!("f{n}b"), "", &format!("dup{n}")), kind: "scalar-shadowing", expect: Expect::Uncatchable }
        }
        12 if allow_overflow => Failing { pre: vec![], f: format!("(seq (ap \"seed\" $ov{n}) (fold $ov{n} it{n} (seq (ap it{n} $ov{n}) (next it{n}))))"), kind: "stream-size-limit", expect: Expect::Uncatchable },
        16 => {
            // a failure that follows an earlier failure which a par or a stream fold kept to itself: the
            // error object must describe the failure that is caught, not the earlier one
            let (a, b) = (1 + rng.below(400), 500 + rng.below(400));
            let second = if rng.chance(1, 2) { format!("(fail {b} \"second{n}\")") } else { call(&format!("e{n}"), "", "") };
            let f = match rng.below(4) {
                0 => format!("(seq (par (fail {a} \"first{n}\") (null)) {second})"),
                1 => format!("(seq (par (null) {}) {second})", call(&format!("e{n}b"), "", "")),
                2 => format!("(par (fail {a} \"first{n}\") {second})"),
                _ => format!("(seq (seq (ap \"v{n}\" $sf{n}) (fold $sf{n} it{n} (seq (fail {a} \"first{n}\") (next it{n})))) {second})"),
            };
            Failing { pre: vec![], f, kind: "failure-after-a-contained-failure", expect: Expect::Catchable }
        }
        15 => {
            // failures of instructions that write a trace state when they succeed
            let (mut pre, v) = obj(n);
            let f = match rng.below(7) {
                0 => format!("(ap {v}.$.nope $s{n})"),
                1 => call(&format!("g{n}"), &format!("{v}.$.nope"), &format!("$s{n}")),
                2 => {
                    pre.push(format!("(ap \"one{n}\" $s{n})"));
                    format!("(canon {v} $s{n} #can{n})")
                }
                3 => {
                    pre.push(format!("(ap (\"k\" \"one{n}\") %m{n})"));
                    format!("(canon {v}.$.a %m{n} #%can{n})")
                }
                4 => format!("(ap ({v}.$.nope \"val\") %m{n})"),
                5 => format!("(ap (\"k\" {v}.$.nope) %m{n})"),
                _ => {
                    pre.push(format!("(ap (\"k\" \"one{n}\") %m{n})"));
                    format!("(canon {v}.$.a.b %m{n} scal{n})")
                }
            };
            Failing { pre, f, kind: "failing-trace-writer", expect: Expect::Catchable }
        }
        13 | 12 => {
            let f = match rng.below(6) {
                0 => call(&format!("f{n}"), "", &format!("ok{n}")),
                1 => format!("(ap {} ok{n})", rng.below(100)),
                2 => "(null)".to_string(),
                3 => "(match 1 1 (null))".to_string(),
                4 => format!("(xor (fail 5 \"handled{n}\") (null))"),
                _ => format!("(seq {} {})", call(&format!("f{n}"), "", &format!("ok{n}")), call(&format!("g{n}"), &format!("ok{n}.$.a.b.[1]"), "")),
            };
            Failing { pre: vec![], f, kind: "succeeds", expect: Expect::Succeeds }
        }
        _ => {
            let (pre, f) = match rng.below(3) {
                0 => (vec![], format!("(call \"{other}\" (\"svc\" \"f{n}\") [] w{n})")),
                1 => (vec![], "(never)".to_string()),
                _ => (vec![format!("(par (call \"{other}\" (\"svc\" \"f{n}\") [] w{n}) (null))")], call(&format!("g{n}"), &format!("w{n}"), "")),
            };
            Failing { pre, f, kind: "waits", expect: Expect::Waits }
        }
    }
}

/// A context with one hole `@@`; `has_par` contexts swallow a failing branch.
/// Returns (setup instructions, context, the same context with every par turned into seq, has_par).
fn gen_context(rng: &mut Rng, ids: &mut Ids, me: &str, depth: usize, allow_par: bool) -> (Vec<String>, String, String, bool) {
    if depth == 0 || rng.chance(1, 4) {
        return (vec![], "@@".to_string(), "@@".to_string(), false);
    }
    let (mut pre, inner, inner_seq, inner_par) = gen_context(rng, ids, me, depth - 1, allow_par);
    let n = ids.next();
    // the argument varies the service result (array lengths differ between call sites)
    let call = |f: &str, out: &str| format!("(call \"{me}\" (\"svc\" \"{f}\") [{n}]{}{out})", if out.is_empty() { "" } else { " " });
    let k = rng.below(if allow_par { 10 } else { 7 });
    let (ctx, par) = match k {
        0 => (format!("(seq {} {inner})", call(&format!("f{n}"), &format!("p{n}"))), false),
        1 => (format!("(new $n{n} {inner})"), false),
        2 => (format!("(new nv{n} {inner})"), false),
        3 => {
            pre.push(call(&format!("arr{n}"), &format!("arr{n}")));
            (format!("(fold arr{n} it{n} (seq {inner} (next it{n})))"), false)
        }
        4 => (format!("(match 1 1 {inner})"), false),
        5 => (format!("(xor (fail {} \"outer{n}\") {inner})", 1 + rng.below(500)), false),
        6 => (format!("(seq (null) {inner})"), false),
        7 => (format!("(par {inner} {})", call(&format!("f{n}"), "")), true),
        8 => (format!("(par {} {inner})", call(&format!("f{n}"), "")), true),
        _ => {
            pre.push(call(&format!("arr{n}"), &format!("arr{n}")));
            (format!("(fold arr{n} it{n} (par {inner} (next it{n})))"), true)
        }
    };
    // the sibling: same nesting (hence same scopes), no par to swallow the failure
    let ctx_seq = if par { ctx.replacen("(par ", "(seq ", 1).replace(&inner, &inner_seq) } else { ctx.replace(&inner, &inner_seq) };
    (pre, ctx, ctx_seq, par || inner_par)
}

fn seq_all(mut parts: Vec<String>) -> String {
    match parts.len() {
        0 => "(null)".into(),
        1 => parts.pop().unwrap(),
        _ => {
            let first = parts.remove(0);
            format!("(seq {first} {})", seq_all(parts))
        }
    }
}

struct Driven {
    /// first non-zero outcome, or (0, "")
    code: i64,
    message: String,
    obs: Vec<Vec<Value>>,
    runs: u64,
    /// on a failing run: data returned equals the previous data
    failed_returned_prev: bool,
    ended_waiting: bool,
}

fn drive(w: &World, max_runs: usize) -> Driven {
    let me = &w.peers[0];
    let mut prev: Vec<u8> = vec![];
    let mut pending: BTreeMap<u32, CallRequest> = BTreeMap::new();
    let mut d = Driven { code: 0, message: String::new(), obs: vec![], runs: 0, failed_returned_prev: true, ended_waiting: false };
    let mut first = true;
    for _ in 0..max_runs {
        let mut input = w.input(me);
        input.prev = prev.clone();
        let mut cr = BTreeMap::new();
        if !first {
            if pending.is_empty() {
                break;
            }
            for (id, r) in std::mem::take(&mut pending) {
                let (code, res) = w.serve(&r.function, &r.args);
                cr.insert(id.to_string(), (code, res));
            }
        }
        first = false;
        input.call_results = CallResultsIn::Map(cr);
        let out = invoke(&input);
        d.runs += 1;
        if let Ok(reqs) = &out.requests {
            for (id, r) in reqs {
                if r.function == "obs" {
                    d.obs.push(r.args.clone());
                }
                pending.insert(*id, r.clone());
            }
        }
        if out.ret_code != 0 {
            d.code = out.ret_code;
            d.message = out.error_message.clone();
            if matches!(classify(out.ret_code), CodeClass::Preparation | CodeClass::Uncatchable) {
                d.failed_returned_prev = out.data == input.prev;
            }
            break;
        }
        d.ended_waiting = !out.next_peers.is_empty();
        prev = out.data;
    }
    d
}

pub fn run(cfg: &Cfg) -> Report {
    let n = cfg.scale(4000, 100_000);
    let stats = par_cases(cfg, n, |case, st| {
        let mut rng = Rng::derive(cfg.seed, 18, case);
        let peers = standard_peers(2);
        let (me, other) = (peers[0].id.clone(), peers[1].id.clone());
        let mut ids = Ids(0);
        let f = gen_failing(&mut rng, &mut ids, &me, &other, case % 40 == 7);
        let depth = rng.below(4);
        let (kpre, ctx, ctx_seq, has_par) = gen_context(&mut rng, &mut ids, &me, depth, true);
        let mut kpre = kpre;
        if rng.chance(1, 4) {
            // a join that is still waiting when the failure happens: a local call whose argument comes from
            // another peer sits in a par whose other side is complete
            let n = ids.next();
            kpre.insert(0, format!("(par (call \"{other}\" (\"svc\" \"f{n}\") [] late{n}) (par (call \"{me}\" (\"svc\" \"g{n}\") [late{n}]) (null)))"));
            st.inc("pairs_after_a_pending_join", 1);
        }
        let obs = format!("(call \"{me}\" (\"svc\" \"obs\") [:error:.$.error_code :error:.$.message %last_error%.$.error_code])");
        // the observer may come after instructions of the right branch that contain a failure of their own
        // (or none): "inside the right branch" the error object is still the one of the caught failure
        let obs = match rng.below(12) {
            0 => { st.label("handler_preludes", "par-without-failure"); format!("(seq (par (null) (null)) {obs})") }
            1 => { st.label("handler_preludes", "par-containing-a-failure"); format!("(seq (par (fail 77 \"contained in the handler\") (null)) {obs})") }
            2 => { st.label("handler_preludes", "stream-fold-containing-a-failure"); format!("(seq (par (null) (seq (ap \"hv\" $hs) (fold $hs hi (fail 78 \"contained in a handler fold\")))) {obs})") }
            3 => { st.label("handler_preludes", "nested-xor-catching-a-mismatch"); format!("(seq (xor (match 1 2 (null)) (null)) {obs})") }
            4 => { st.label("handler_preludes", "nested-xor-catching-a-failure"); format!("(seq (xor (fail 79 \"caught inside the handler\") (null)) {obs})") }
            5 => { st.label("handler_preludes", "new-and-match"); format!("(seq (new hx (match 1 1 (null))) {obs})") }
            _ => obs,
        };
        let caught_f = format!("(xor {} {obs})", f.f);
        let build = |ctx: &str, hole: &str| {
            let mut parts = kpre.clone();
            parts.extend(f.pre.iter().cloned());
            parts.push(ctx.replace("@@", hole));
            seq_all(parts)
        };
        let uncaught_air = build(&ctx, &f.f);
        let caught_air = build(&ctx, &caught_f);
        // reference for contexts with par: the same F in the same context with every par turned into seq
        let plain_air = build(&ctx_seq, &f.f);
        for a in [&uncaught_air, &caught_air] {
            if air_parser::parse(a).is_err() {
                st.inc("generator_rejected_or_failed", 1);
                st.label("rejected_kinds", f.kind);
                return;
            }
        }
        let world = |air: &str| World::new(2, air.to_string(), None, &format!("c18-{}-{case}", cfg.seed), 3);
        let max_runs = 60;
        let un = drive(&world(&uncaught_air), max_runs);
        let ca = drive(&world(&caught_air), max_runs);
        st.inc("pairs", 1);
        st.inc("runs", un.runs + ca.runs);
        st.label("failing_kinds", f.kind);
        let detail = || json!({"kind": f.kind, "uncaught_air": uncaught_air, "caught_air": caught_air, "uncaught": {"code": un.code, "message": un.message}, "caught": {"code": ca.code, "message": ca.message, "observer_requests": ca.obs}});
        if case < 6 {
            st.sample(detail());
        }
        // where the expected (code, message) comes from
        let reference = if has_par {
            st.inc("pairs_in_par_context", 1);
            let pl = drive(&world(&plain_air), max_runs);
            st.inc("runs", pl.runs);
            pl
        } else {
            Driven { code: un.code, message: un.message.clone(), obs: vec![], runs: 0, failed_returned_prev: un.failed_returned_prev, ended_waiting: un.ended_waiting }
        };
        let class = classify(reference.code);
        st.label("uncaught_classes", &format!("{class:?}"));
        if reference.code != 0 {
            st.label("uncaught_error_names", &crate::errcodes::table().name(reference.code));
        }
        match class {
            CodeClass::Catchable => {
                st.inc("catchable_pairs", 1);
                st.seen("nontrivial_pairs", fnv(format!("{}|{}|{}", f.kind, reference.code, ctx).as_bytes()));
                if f.expect != Expect::Catchable {
                    st.inc("class_differs_from_harness_expectation", 1);
                }
                if ca.obs.is_empty() {
                    st.violation("C18", "catchable-not-caught", &format!("the uncaught run fails with the catchable code {} ({}), but with an xor around the instruction the right branch never ran (caught run ended with code {})", reference.code, crate::proj::trunc(&reference.message, 100), ca.code), case, detail());
                    return;
                }
                for o in &ca.obs {
                    st.inc("observer_requests_checked", 1);
                    let code = o.first().and_then(|v| v.as_i64());
                    let msg = o.get(1).and_then(|v| v.as_str());
                    if code != Some(reference.code) {
                        st.violation("C18", "error-object-code-differs", &format!(":error:.$.error_code is {:?} in the right branch, the same failure reports code {} when not caught", o.first(), reference.code), case, detail());
                        return;
                    }
                    if msg != Some(reference.message.as_str()) {
                        st.violation("C18", "error-object-message-differs", &format!(":error:.$.message is {:?} in the right branch, the same failure reports {:?} when not caught", msg, reference.message), case, detail());
                        return;
                    }
                    if o.get(2).and_then(|v| v.as_i64()) == Some(reference.code) {
                        st.inc("last_error_code_agrees_info", 1);
                    }
                }
                if !has_par && ca.code != 0 {
                    // the observer always succeeds: after a caught failure nothing else in these contexts fails
                    st.violation("C18", "caught-run-still-fails", &format!("the failure was caught (observer requested) but the run ended with code {} {}", ca.code, crate::proj::trunc(&ca.message, 100)), case, detail());
                }
            }
            CodeClass::Uncatchable => {
                st.inc("uncatchable_pairs", 1);
                st.seen("nontrivial_pairs", fnv(format!("{}|{}|{}", f.kind, reference.code, ctx).as_bytes()));
                if f.expect != Expect::Uncatchable {
                    st.inc("class_differs_from_harness_expectation", 1);
                }
                if !ca.obs.is_empty() {
                    st.violation("C18", "uncatchable-caught", &format!("the uncaught run fails with the uncatchable code {}, yet the right branch of the xor ran", reference.code), case, detail());
                } else if ca.code != reference.code {
                    st.violation("C18", "uncatchable-code-changed-under-xor", &format!("uncaught code {} but with an xor around the instruction the run ends with code {}", reference.code, ca.code), case, detail());
                } else if !ca.failed_returned_prev {
                    st.violation("C18", "uncatchable-did-not-return-prev", &format!("the run failed with the uncatchable code {} but did not return the previous data", ca.code), case, detail());
                }
            }
            CodeClass::Success => {
                if reference.ended_waiting || f.expect == Expect::Waits {
                    st.inc("waiting_pairs", 1);
                } else {
                    st.inc("succeeding_pairs", 1);
                }
                st.seen("nontrivial_pairs", fnv(format!("{}|ok|{}", f.kind, ctx).as_bytes()));
                if matches!(f.expect, Expect::Catchable | Expect::Uncatchable) {
                    st.inc("class_differs_from_harness_expectation", 1);
                }
                if !ca.obs.is_empty() {
                    let sig = if f.expect == Expect::Waits { "right-branch-ran-while-left-waits" } else { "right-branch-ran-after-success" };
                    st.violation("C18", sig, "the instruction does not fail when run without the xor, yet the right branch of the xor ran", case, detail());
                }
            }
            _ => {
                st.inc("pairs_with_other_outcome", 1);
                st.label("other_outcomes", &format!("{} {}", reference.code, crate::proj::trunc(&reference.message, 60)));
            }
        }
    });
    Report {
        prop: "C18",
        level: "exploration",
        stats,
        evaluations_key: "pairs",
        nontrivial_key: "nontrivial_pairs",
        rule: "each case generates one instruction F of 15 kinds (service error, fail literal/scalar/rethrow of :error: and %last_error%, match/mismatch, lens errors in call/ap/match/fold position, fold over non-array, non-string triplet part, length of non-array, stream-map key type, canon lens error, scalar shadowing, stream size limit, succeeding controls, waiting controls) in a random context of depth 0-3 (seq, new, scalar fold in seq and par position, match, right branch of an outer xor, par left/right) and drives it on one peer to the end twice: uncaught and wrapped in (xor F observer). Distinct non-trivial = distinct (kind, uncaught code, context shape) triples whose uncaught class was decided".into(),
        assumptions: vec![
            "the class of a failure is taken from the documented code ranges of the uncaught run (10000-19999 catchable, 20000-29999 uncatchable)".into(),
            "in contexts containing par the expected code and message come from the same instruction run in the same context with each par replaced by seq".into(),
            "%last_error% agreement is counted as information only".into(),
        ],
    }
}
