//! C14: forged or replayed results from other peers are never accepted.
//!
//! Fault enumeration. Attacker M is a participating peer: it may rewrite any field of the data it
//! sends and can sign only its own results. For every delivery M -> R of an honest history whose
//! data carries results of a third peer V, every operation of the catalogue below is applied to
//! every such result (value, id, tetraplet and argument-hash edits with consistently repaired
//! stores, relocation, kind change, duplication, removal, signature edits, re-attribution of M's own
//! result to V, canon edits) and the whole data of the same point of another particle is replayed;
//! M's own signature is always renewed. R is then run on (its honest previous data, tampered data).
//!
//! Oracle: R either rejects (preparation or uncatchable error; C02 demands prev untouched) or
//! accepts. If it accepts: (1) every result attributed in the output to a peer other than M and R is
//! one that peer really produced in the honest history of this particle, (2) with exactly the content
//! (value, tetraplet, argument hash, canon values) that peer produced behind its id, and (3) wherever the
//! output of the same run on the untampered data has the same shape, such results sit at the same trace
//! positions. Whether an accepted output still passes the independent verifier is reported as
//! information only: the statement does not list the *kind* of a state (failed/executed) among the
//! things a signature protects, and a receiver that follows a lying participant's version of the
//! control flow may legitimately end up with data that others reject (see DESIGN.md 12.4).
use super::honest::*;
use crate::invoke::*;
use crate::keys::Peer;
use crate::oracle::cidv::cid_of_bytes;
use crate::oracle::verify;
use crate::proj::{self, St};
use crate::report::*;
use crate::rng::{fnv, Rng};
use crate::sim::{run_decisions, standard_peers, World};
use crate::tamper::{cids_of_peer, repair, resign};
use serde_json::{json, Value};
use std::collections::{BTreeMap, BTreeSet};

const OPS: &[&str] = &[
    "value-edit-in-place",
    "value-edit-repaired",
    "tetraplet-function-repaired",
    "tetraplet-service-repaired",
    "tetraplet-lens-repaired",
    "tetraplet-peer-to-attacker-repaired",
    "argument-hash-repaired",
    "value-alias-repaired",
    "relocate-between-calls",
    "kind-change",
    "duplicate-over-pending-call",
    "remove-result",
    "signature-drop",
    "signature-swap",
    "signature-garbage",
    "attacker-result-attributed-to-victim",
    "canon-values-edit-repaired",
    "replay-from-other-particle",
];

/// (trace index, service-result cid) of call results attributed to `peer`
fn results_of(data: &Value, peer: &str) -> Vec<(usize, String)> {
    proj::states(data)
        .iter()
        .enumerate()
        .filter_map(|(i, s)| match s {
            St::CallExec { kind, cid, .. } if *kind != "unused" => Some((i, cid.clone())),
            St::CallFailed(cid) => Some((i, cid.clone())),
            _ => None,
        })
        .filter(|(_, cid)| proj::service_result(data, cid).and_then(|(_, t, _)| t.get("peer_pk").and_then(|x| x.as_str()).map(|p| p == peer)).unwrap_or(false))
        .collect()
}

fn canons_of(data: &Value, peer: &str) -> Vec<(usize, String)> {
    proj::states(data)
        .iter()
        .enumerate()
        .filter_map(|(i, s)| match s {
            St::CanonExec(cid) => Some((i, cid.clone())),
            _ => None,
        })
        .filter(|(_, cid)| proj::canon_result(data, cid).and_then(|(t, _)| t.get("peer_pk").and_then(|x| x.as_str()).map(|p| p == peer)).unwrap_or(false))
        .collect()
}

fn store<'a>(d: &'a mut Value, name: &str) -> Option<&'a mut serde_json::Map<String, Value>> {
    d.get_mut("cid_info")?.get_mut(name)?.as_object_mut()
}

/// Give the victim's result its own copy of the tetraplet so that an edit touches only this result.
fn private_tetraplet(d: &mut Value, sr_cid: &str, edit: impl Fn(&mut Value)) -> Option<()> {
    let tcid = store(d, "service_result_store")?.get(sr_cid)?.get("tetraplet_cid")?.as_str()?.to_string();
    let mut t = store(d, "tetraplet_store")?.get(&tcid)?.clone();
    edit(&mut t);
    let key = format!("tampered-tetraplet-{}", proj::short(sr_cid));
    store(d, "tetraplet_store")?.insert(key.clone(), t);
    store(d, "service_result_store")?.get_mut(sr_cid)?["tetraplet_cid"] = json!(key);
    Some(())
}

/// Apply one operation against result `k` of the victim; None if not applicable.
#[allow(clippy::too_many_arguments)]
fn apply(op: &str, d: &mut Value, victim: &Peer, attacker: &Peer, k: usize, rng: &mut Rng, particle: &str) -> Option<String> {
    let vres = results_of(d, &victim.id);
    let mut label = op.to_string();
    let mut needs_repair = false;
    match op {
        "value-edit-in-place" | "value-edit-repaired" => {
            let (_, cid) = vres.get(k)?;
            let vcid = store(d, "service_result_store")?.get(cid)?.get("value_cid")?.as_str()?.to_string();
            let forged = json!({"forged": format!("by-attacker-{}", rng.below(1000))}).to_string();
            store(d, "value_store")?.insert(vcid, json!(forged));
            needs_repair = op.ends_with("repaired");
        }
        "tetraplet-function-repaired" | "tetraplet-service-repaired" | "tetraplet-lens-repaired" | "tetraplet-peer-to-attacker-repaired" => {
            let (_, cid) = vres.get(k)?;
            let att = attacker.id.clone();
            let which = op.to_string();
            private_tetraplet(d, cid, move |t| match which.as_str() {
                "tetraplet-function-repaired" => t["function_name"] = json!("forged_fn"),
                "tetraplet-service-repaired" => t["service_id"] = json!("forged_svc"),
                "tetraplet-lens-repaired" => t["lens"] = json!(".$.forged"),
                _ => t["peer_pk"] = json!(att),
            })?;
            needs_repair = true;
        }
        "argument-hash-repaired" => {
            let (_, cid) = vres.get(k)?;
            let other = vres.iter().map(|(_, c)| c.clone()).find(|c| c != cid).and_then(|c| store(d, "service_result_store")?.get(&c)?.get("argument_hash")?.as_str().map(|s| s.to_string()));
            let h = if rng.chance(1, 2) { other } else { None }.unwrap_or_else(|| cid_of_bytes(b"[\"forged arguments\"]"));
            let item = store(d, "service_result_store")?.get_mut(cid)?;
            if item.get("argument_hash")?.as_str()? == h {
                return None;
            }
            item["argument_hash"] = json!(h);
            needs_repair = true;
        }
        "value-alias-repaired" => {
            let (_, cid) = vres.get(k)?;
            let own = store(d, "service_result_store")?.get(cid)?.get("value_cid")?.as_str()?.to_string();
            let others: Vec<String> = store(d, "value_store")?.keys().filter(|c| **c != own).cloned().collect();
            if others.is_empty() {
                return None;
            }
            let o = rng.pick(&others).clone();
            store(d, "service_result_store")?.get_mut(cid)?["value_cid"] = json!(o);
            needs_repair = true;
        }
        "relocate-between-calls" => {
            let (i, ci) = vres.get(k)?.clone();
            let (j, _) = vres.iter().find(|(j, cj)| *j != i && *cj != ci)?.clone();
            let tr = d.get_mut("trace")?.as_array_mut()?;
            tr.swap(i, j);
            label = format!("{op} {i}<->{j}");
        }
        "kind-change" => {
            let (i, cid) = vres.get(k)?.clone();
            let vcid = store(d, "service_result_store")?.get(&cid)?.get("value_cid")?.as_str()?.to_string();
            let cur = d["trace"][i]["call"].clone();
            let cands = [json!({"failed": cid}), json!({"executed": {"scalar": cid}}), json!({"executed": {"unused": vcid}}), json!({"executed": {"stream": {"cid": cid, "generation": 0}}})];
            let c = cands.iter().filter(|c| **c != cur).nth(rng.below(3))?.clone();
            d["trace"][i]["call"] = c;
        }
        "duplicate-over-pending-call" => {
            let (i, _) = vres.get(k)?.clone();
            let pend: Vec<usize> = proj::states(d).iter().enumerate().filter(|(_, s)| matches!(s, St::CallSent(..))).map(|(j, _)| j).collect();
            if pend.is_empty() {
                return None;
            }
            let j = *rng.pick(&pend);
            let src = d["trace"][i].clone();
            d["trace"][j] = src;
            label = format!("{op} {i}->{j}");
        }
        "remove-result" => {
            let (i, _) = vres.get(k)?.clone();
            d["trace"][i] = json!({"call": {"sent_by": {"PeerId": attacker.id}}});
        }
        "signature-drop" | "signature-swap" | "signature-garbage" => {
            if k != 0 {
                return None;
            }
            let sigs = d.get_mut("signatures")?.as_object_mut()?;
            let vk = victim.pk_b58.clone();
            if !sigs.contains_key(&vk) {
                return None;
            }
            match op {
                "signature-drop" => {
                    sigs.remove(&vk);
                }
                "signature-swap" => {
                    let other = sigs.keys().find(|x| **x != vk && **x != attacker.pk_b58)?.clone();
                    let (a, b) = (sigs[&vk].clone(), sigs[&other].clone());
                    if a == b {
                        return None;
                    }
                    sigs.insert(vk, b);
                    sigs.insert(other, a);
                }
                _ => {
                    // a well-formed signature made with the attacker's key over the victim's results
                    let cids = cids_of_peer(d, &victim.id);
                    let forged = verify::sign(&attacker.signing, &cids, particle);
                    d.get_mut("signatures")?.as_object_mut()?.insert(vk, json!(forged));
                }
            }
        }
        "attacker-result-attributed-to-victim" => {
            let mine = results_of(d, &attacker.id);
            let (_, cid) = mine.get(k)?;
            let vid = victim.id.clone();
            private_tetraplet(d, cid, move |t| t["peer_pk"] = json!(vid))?;
            needs_repair = true;
        }
        "canon-values-edit-repaired" => {
            let cs = canons_of(d, &victim.id);
            let (_, cid) = cs.get(k)?;
            let item = store(d, "canon_result_store")?.get_mut(cid)?;
            let vals = item.get_mut("values")?.as_array_mut()?;
            if vals.is_empty() {
                return None;
            }
            if rng.chance(1, 2) && vals.len() > 1 {
                vals.pop();
            } else {
                let e = vals[0].clone();
                vals.push(e);
            }
            needs_repair = true;
        }
        _ => return None,
    }
    if needs_repair {
        repair(d);
    }
    // the attacker can always present a valid signature over whatever is attributed to it now
    resign(d, attacker, particle);
    Some(label)
}

struct Verdict {
    accepted: bool,
    problem: Option<(String, String)>,
    /// accepted outputs only: does the output pass the independent verifier (information)
    verifies: Option<bool>,
}

/// what is stored behind a call or canon result id
fn content_of(data: &Value, cid: &str) -> Option<String> {
    if let Some((v, t, a)) = proj::service_result(data, cid) {
        return Some(format!("{v}|{t}|{a}"));
    }
    proj::canon_result(data, cid).map(|(t, vals)| format!("{t}|{:?}", vals))
}

/// R's reaction to tampered data, judged against the honest ground truth.
#[allow(clippy::too_many_arguments)]
fn judge(w: &World, r: usize, m: usize, out: &RunOutcome, honest_out: Option<&Value>, truth: &BTreeMap<String, BTreeSet<String>>, truth_content: &BTreeMap<String, String>, prev: &[u8]) -> Verdict {
    match classify(out.ret_code) {
        CodeClass::Preparation | CodeClass::Uncatchable => {
            let problem = if out.data != prev { Some(("rejected-but-prev-not-returned".to_string(), format!("rejected with code {} but the previous data was not returned", out.ret_code))) } else { None };
            Verdict { accepted: false, problem, verifies: None }
        }
        CodeClass::Other => Verdict { accepted: false, problem: Some((format!("panic-or-unknown-code@{}", out.ret_code), proj::trunc(&out.error_message, 200))), verifies: None },
        _ => {
            let v = match proj::decode(&out.data) {
                Ok(v) => v.data,
                Err(e) => return Verdict { accepted: true, problem: Some(("accepted-output-undecodable".into(), e)), verifies: None },
            };
            for (h, peer) in w.peers.iter().enumerate() {
                if h == m || h == r {
                    continue;
                }
                let empty = BTreeSet::new();
                let known = truth.get(&peer.id).unwrap_or(&empty);
                for cid in cids_of_peer(&v, &peer.id) {
                    if !known.contains(&cid) {
                        return Verdict { accepted: true, verifies: None, problem: Some(("forged-result-accepted".into(), format!("the output attributes result {} to {}, which never produced it in the honest history of this particle", proj::short(&cid), peer.name))) };
                    }
                    // the id is genuine: so must be what is stored behind it (value, tetraplet, argument hash, canon values)
                    if let (Some(want), got) = (truth_content.get(&cid), content_of(&v, &cid)) {
                        if got.as_deref() != Some(want.as_str()) {
                            return Verdict { accepted: true, verifies: None, problem: Some(("forged-content-accepted".into(), format!("the output keeps result {} of {} but stores {:?} behind it; {} produced {:?}", proj::short(&cid), peer.name, got.map(|g| proj::trunc(&g, 160)), peer.name, proj::trunc(want, 160)))) };
                        }
                    }
                }
            }
            // information only (C03 speaks about honest histories; a receiver that accepts data of a lying
            // participant may end up with data others reject): does the accepted output verify
            let verifies = verify::verify(&v, &w.particle_id).is_ok();
            if let Some(hv) = honest_out {
                let (a, b) = (proj::states(&v), proj::states(hv));
                if a.len() == b.len() {
                    for (i, (x, y)) in a.iter().zip(&b).enumerate() {
                        let cid = match x {
                            St::CallExec { kind, cid, .. } if *kind != "unused" => cid,
                            St::CallFailed(cid) => cid,
                            _ => continue,
                        };
                        let owner = proj::service_result(&v, cid).and_then(|(_, t, _)| t.get("peer_pk").and_then(|p| p.as_str()).map(|s| s.to_string()));
                        let foreign = owner.as_deref().map(|o| o != w.peers[m].id && o != w.peers[r].id).unwrap_or(false);
                        if !foreign {
                            continue;
                        }
                        let same = match y {
                            St::CallExec { cid: c2, .. } | St::CallFailed(c2) => c2 == cid,
                            // the honest merge did not have a result there at all: the tampered data moved one in
                            _ => false,
                        };
                        if !same {
                            return Verdict { accepted: true, verifies: Some(verifies), problem: Some(("relocated-result-accepted".into(), format!("trace position {i} holds result {} of another peer; merging the untampered data leaves {:?} there", proj::short(cid), y))) };
                        }
                    }
                }
            }
            Verdict { accepted: true, problem: None, verifies: Some(verifies) }
        }
    }
}

pub fn run(cfg: &Cfg) -> Report {
    let n = cfg.scale(300, 6000);
    let stats = run_honest(cfg, 14, n, &[Frag::Seq, Frag::Stream, Frag::SeqNoFail, Frag::StreamNoFail], |c, case, rng, st| {
        let w = &c.world;
        let h = &c.history;
        if c.world.script.is_none() || super::taint::by_step(h).iter().any(|t| t.0 || t.1 || t.2) {
            // directed scripts, and histories that show a recorded finding, are not attacked
            return;
        }
        // ground truth: what every peer really produced for this particle
        let mut truth: BTreeMap<String, BTreeSet<String>> = BTreeMap::new();
        let mut truth_content: BTreeMap<String, String> = BTreeMap::new();
        for s in &h.steps {
            if let Some(v) = &s.out_v {
                for p in &w.peers {
                    for cid in cids_of_peer(v, &p.id) {
                        if let Some(c) = content_of(v, &cid) {
                            truth_content.entry(cid.clone()).or_insert(c);
                        }
                        truth.entry(p.id.clone()).or_default().insert(cid);
                    }
                }
            }
        }
        // the same schedule under another particle id (for the replay operation)
        let other_world = World::new(w.peers.len(), w.air.clone(), None, &format!("{}-other", w.particle_id), w.max_arr);
        let mut other_history = None;
        // deliveries M -> R carrying results of a third peer
        let mut attacked = 0;
        let deliveries: Vec<&crate::sim::Step> = h.steps.iter().filter(|s| s.from.is_some() && s.from != Some(s.peer) && s.produced_new_data()).collect();
        for s in deliveries.iter().rev() {
            if attacked >= if cfg.thorough { 4 } else { 2 } {
                break;
            }
            let (m, r) = (s.from.unwrap(), s.peer);
            let Some(cv) = &s.cur_v else { continue };
            let victims: Vec<usize> = (0..w.peers.len()).filter(|v| *v != m && *v != r && !results_of(cv, &w.peers[*v].id).is_empty()).collect();
            if victims.is_empty() {
                continue;
            }
            attacked += 1;
            st.inc("deliveries_attacked", 1);
            // reference: the same run on the untampered data (without call results)
            let mut base = w.input(&w.peers[r]);
            base.prev = s.input.prev.clone();
            base.cur = s.input.cur.clone();
            let honest = invoke(&base);
            st.inc("runs", 1);
            if !matches!(classify(honest.ret_code), CodeClass::Success | CodeClass::Catchable) {
                st.inc("deliveries_whose_honest_run_fails_skipped", 1);
                continue;
            }
            let honest_v = proj::decode(&honest.data).ok().map(|v| v.data);
            for v in victims {
                let victim = &w.peers[v];
                let n_res = results_of(cv, &victim.id).len().max(canons_of(cv, &victim.id).len());
                for op in OPS {
                    for k in 0..n_res.min(if cfg.thorough { 4 } else { 2 }) {
                        let tampered: Option<(String, Vec<u8>)> = if *op == "replay-from-other-particle" {
                            if k != 0 {
                                continue;
                            }
                            let oh = other_history.get_or_insert_with(|| run_decisions(&other_world, &h.decisions));
                            oh.steps.get(s.idx).filter(|os| os.peer == r && !os.input.cur.is_empty()).map(|os| (op.to_string(), os.input.cur.clone()))
                        } else {
                            let mut view = match proj::decode(&s.input.cur) {
                                Ok(v) => v,
                                Err(_) => continue,
                            };
                            let mut d = view.data.clone();
                            let lab = crate::invoke::guarded(|| apply(op, &mut d, victim, &w.peers[m], k, rng, &w.particle_id)).ok().flatten();
                            lab.and_then(|l| {
                                view.data = d;
                                proj::encode(&view).ok().map(|b| (l, b))
                            })
                        };
                        let Some((label, bytes)) = tampered else {
                            st.inc("operations_not_applicable", 1);
                            continue;
                        };
                        if bytes == s.input.cur {
                            st.inc("operations_without_effect", 1);
                            continue;
                        }
                        let mut input = base.clone();
                        input.cur = bytes;
                        let out = invoke(&input);
                        st.inc("runs", 1);
                        st.inc("tamperings", 1);
                        st.label("operations_applied", op);
                        st.seen("distinct_tamperings", fnv(&input.cur) ^ fnv(&input.prev).rotate_left(23));
                        let verdict = judge(w, r, m, &out, honest_v.as_ref(), &truth, &truth_content, &input.prev);
                        if verdict.accepted {
                            st.inc("tamperings_accepted", 1);
                            if verdict.verifies == Some(false) {
                                st.inc("info_accepted_outputs_that_do_not_verify", 1);
                                st.label("info_operations_leaving_unverifiable_output", op);
                            }
                            st.label("operations_accepted_harmlessly_or_not", op);
                        } else {
                            st.inc("tamperings_rejected", 1);
                            st.label("rejection_errors", &crate::errcodes::table().name(out.ret_code));
                        }
                        if let Some((sig, what)) = verdict.problem {
                            st.violation("C14", &format!("{sig}@{op}"), &format!("attacker {} -> {} (victim {}), operation {label}: {what}", w.peers[m].name, w.peers[r].name, victim.name), case, json!({"step": s.idx, "operation": label, "attacker": w.peers[m].name, "receiver": w.peers[r].name, "victim": victim.name, "run": {"code": out.ret_code, "message": proj::trunc(&out.error_message, 200)}, "history": history_sample(c, 30)}));
                        }
                    }
                }
            }
        }
    });
    let mut stats = stats;
    if cfg.only_case.is_none() {
        unsigned_unused_result(cfg, &mut stats);
    }
    Report {
        prop: "C14",
        level: "fault_enumeration",
        stats,
        evaluations_key: "tamperings",
        nontrivial_key: "distinct_tamperings",
        rule: format!("fault catalogue ({} operations: {}) applied to every result of every third-party victim in the last deliveries (2 per history, 4 thorough) of generated honest histories; the attacker repairs the CID stores and renews its own signature; the receiver is run on its honest previous data and the tampered data. Distinct non-trivial = distinct (tampered data, previous data) pairs that differ from the honest data", OPS.len(), OPS.join(", ")),
        assumptions: vec![
            "the attacker cannot forge ed25519 signatures of other peers (it signs with its own key only)".into(),
            "ground truth = the results every peer produced in the honest history of the same particle; relocation between two calls with identical peer, service, function and arguments has no effect on the data and is not counted".into(),
            "the position clause (3) is judged only when the output has the same number of states as the output for the untampered data".into(),
        ],
    }
}

/// A call without an output is recorded as `executed(unused(value id))`: the state carries no service-result id,
/// so no signature covers it. Crafted data from the attacker marks a pending call of a third peer that way; the
/// receiver must not take it for an executed call of that peer.
fn unsigned_unused_result(cfg: &Cfg, st: &mut Stats) {
    let peers = standard_peers(3);
    let (r, m, victim) = (&peers[0], &peers[1], &peers[2]);
    for (k, forged_cid) in ["bagaaihraanythingatall", "bagaaieraxh4bbmpsgdgxpiguou7qwnlh5q7svllgnaggnb5ochnlirlaxhza"].iter().enumerate() {
        let air = format!("(seq (call \"{}\" (\"svc\" \"f1\") []) (call \"{}\" (\"svc\" \"num1\") [] x))", victim.id, r.id);
        let w = World::new(3, air, None, &format!("c14-unused-{}-{k}", cfg.seed), 3);
        let first = invoke(&w.input(r));
        let Ok(view) = proj::decode(&first.data) else { continue };
        let mut data = view.data.clone();
        data["trace"] = json!([{"call": {"executed": {"unused": forged_cid}}}]);
        resign(&mut data, m, &w.particle_id);
        let Ok(bytes) = proj::encode_with_versions(&data, &view.data_version, &view.interpreter_version) else { continue };
        let mut input = w.input(r);
        input.prev = first.data.clone();
        input.cur = bytes;
        let out = invoke(&input);
        st.inc("tamperings", 1);
        st.label("operations", "pending-call-of-a-third-peer-marked-executed-unused");
        let requested: Vec<String> = out.requests.as_ref().map(|r| r.values().map(|q| q.function.clone()).collect()).unwrap_or_default();
        let accepted = matches!(classify(out.ret_code), CodeClass::Success) && proj::decode(&out.data).ok().map(|v| matches!(proj::states(&v.data).first(), Some(St::CallExec { kind: "unused", .. }))).unwrap_or(false);
        if accepted {
            st.inc("tamperings_accepted", 1);
            st.violation("C14", "unsigned-unused-result-of-another-peer-accepted@pending-call-marked-executed-unused", &format!("attacker {} hands {} data whose only state is executed(unused({forged_cid})) at the pending call addressed to {}: the run ends with code {} and records the call as executed by {} (requests issued next: {:?}); nothing was signed by {}", m.name, r.name, victim.name, out.ret_code, victim.name, requested, victim.name), 2_000_000_000 + k as u64, json!({"attacker": m.name, "receiver": r.name, "victim": victim.name, "forged_state": {"call": {"executed": {"unused": forged_cid}}}, "requests_after": requested}));
        } else {
            st.inc("tamperings_rejected", 1);
        }
    }
}
