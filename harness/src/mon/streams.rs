//! Per-run model of what the interpreter did with streams, rebuilt from the hook events
//! (`--cfg aquavm_verif`): stream instances (global or `new`-scoped), the values put into them with
//! their source and generation, canon snapshots and the values visited by stream folds.
use air::verif_hooks::Event;
use std::collections::BTreeMap;

#[derive(Clone, Debug, PartialEq)]
pub enum Src {
    Prev(u64),
    Cur(u64),
    New,
}

impl Src {
    pub fn rank(&self) -> (u8, u64) {
        match self {
            Src::Prev(g) => (0, *g),
            Src::Cur(g) => (1, *g),
            Src::New => (2, 0),
        }
    }
}

#[derive(Clone, Debug)]
pub struct Add {
    pub seq: usize,
    pub src: Src,
    pub value: String,
    pub trace_pos: u32,
}

#[derive(Clone, Debug, Default)]
pub struct Instance {
    pub name: String,
    pub id: usize,
    pub adds: Vec<Add>,
}

#[derive(Clone, Debug)]
pub struct Snapshot {
    pub instance: usize,
    pub name: String,
    pub values: Vec<String>,
    /// number of adds to the instance at snapshot time
    pub adds_before: usize,
    pub first_time_peer: Option<String>,
}

#[derive(Clone, Debug)]
pub struct FoldRun {
    pub fold_id: u32,
    pub name: String,
    pub instance: Option<usize>,
    pub visited: Vec<(u32, String)>,
    pub ended: bool,
    /// sequence number of the last add that happened before the fold started
    pub start_seq: usize,
    /// number of adds to the instance when the fold ended
    pub adds_at_end: usize,
}

#[derive(Default, Debug)]
pub struct Model {
    pub instances: Vec<Instance>,
    pub snapshots: Vec<Snapshot>,
    pub folds: Vec<FoldRun>,
    pub malformed: Vec<String>,
}

fn parse_src(g: &str) -> Option<Src> {
    if g == "new" {
        return Some(Src::New);
    }
    let num = |s: &str| s.trim_end_matches(')').parse::<u64>().ok();
    if let Some(r) = g.strip_prefix("previous(") {
        return num(r).map(Src::Prev);
    }
    if let Some(r) = g.strip_prefix("current(") {
        return num(r).map(Src::Cur);
    }
    None
}

pub fn build(events: &[Event]) -> Model {
    let mut m = Model::default();
    // name -> stack of instance ids (new scopes); global instance created on demand
    let mut scopes: BTreeMap<String, Vec<(usize, Option<(usize, usize)>)>> = BTreeMap::new();
    let mut globals: BTreeMap<String, usize> = BTreeMap::new();
    let mut open_folds: Vec<usize> = vec![];
    let mut seq = 0;
    // `new` scoping is lexical: an operand belongs to the innermost scope still being executed whose
    // `new` encloses the operand in the script text, and to the global instance otherwise (a scope opened
    // by an outer iteration of a fold does not capture an operand written after its `new`)
    fn current(m: &mut Model, scopes: &BTreeMap<String, Vec<(usize, Option<(usize, usize)>)>>, globals: &mut BTreeMap<String, usize>, name: &str, pos: Option<usize>) -> usize {
        if let Some(stack) = scopes.get(name) {
            for (id, span) in stack.iter().rev() {
                let inside = match (span, pos) {
                    (Some((l, r)), Some(p)) => *l < p && p < *r,
                    // no position information: dynamic nesting is the best available reading
                    _ => true,
                };
                if inside {
                    return *id;
                }
            }
        }
        if let Some(id) = globals.get(name) {
            return *id;
        }
        let id = m.instances.len();
        m.instances.push(Instance { name: name.to_string(), id, adds: vec![] });
        globals.insert(name.to_string(), id);
        id
    }
    let mut pending_span: Option<(String, usize, usize)> = None;
    let mut pending_use: Option<(String, usize)> = None;
    fn take_use(pending: &mut Option<(String, usize)>, name: &str) -> Option<usize> {
        match pending.take() {
            Some((n, p)) if n == name => Some(p),
            _ => None,
        }
    }
    for e in events {
        match e {
            Event::ScopeSpan { name, left, right } => pending_span = Some((name.clone(), *left, *right)),
            Event::StreamUse { name, air_pos } => pending_use = Some((name.clone(), *air_pos)),
            Event::ScopeStart { name } => {
                let id = m.instances.len();
                m.instances.push(Instance { name: name.clone(), id, adds: vec![] });
                let span = match pending_span.take() {
                    Some((n, l, r)) if &n == name => Some((l, r)),
                    _ => None,
                };
                scopes.entry(name.clone()).or_default().push((id, span));
            }
            Event::ScopeEnd { name } => {
                if scopes.get_mut(name).and_then(|s| s.pop()).is_none() {
                    m.malformed.push(format!("scope end without start for {name}"));
                }
            }
            Event::StreamAdd { name, generation, value, trace_pos } => {
                let pos = take_use(&mut pending_use, name);
                let id = current(&mut m, &scopes, &mut globals, name, pos);
                match parse_src(generation) {
                    Some(src) => {
                        seq += 1;
                        m.instances[id].adds.push(Add { seq, src, value: value.clone(), trace_pos: *trace_pos });
                    }
                    None => m.malformed.push(format!("unparsable generation {generation}")),
                }
            }
            Event::CanonSnapshot { name, values } => {
                let pos = take_use(&mut pending_use, name);
                let id = current(&mut m, &scopes, &mut globals, name, pos);
                let adds_before = m.instances[id].adds.len();
                m.snapshots.push(Snapshot { instance: id, name: name.clone(), values: values.clone(), adds_before, first_time_peer: None });
            }
            Event::CanonFirstTime { peer } => {
                if let Some(s) = m.snapshots.last_mut() {
                    s.first_time_peer = Some(peer.clone());
                }
            }
            Event::FoldStart { fold_id, name } => {
                // name is the printed fold instruction: "fold $s it"
                let sname = name.split_whitespace().nth(1).unwrap_or("").to_string();
                let pos = take_use(&mut pending_use, &sname);
                let inst = if sname.starts_with('$') || sname.starts_with('%') { Some(current(&mut m, &scopes, &mut globals, &sname, pos)) } else { None };
                open_folds.push(m.folds.len());
                m.folds.push(FoldRun { fold_id: *fold_id, name: sname, instance: inst, visited: vec![], ended: false, start_seq: seq, adds_at_end: 0 });
            }
            Event::FoldIteration { fold_id, value_pos, value } => {
                if let Some(i) = open_folds.iter().rev().find(|i| m.folds[**i].fold_id == *fold_id) {
                    m.folds[*i].visited.push((*value_pos, value.clone()));
                } else {
                    m.malformed.push(format!("iteration of unknown fold {fold_id}"));
                }
            }
            Event::FoldEnd { fold_id } => {
                if let Some(p) = open_folds.iter().rposition(|i| m.folds[*i].fold_id == *fold_id) {
                    let i = open_folds.remove(p);
                    m.folds[i].ended = true;
                    m.folds[i].adds_at_end = m.folds[i].instance.map(|id| m.instances[id].adds.len()).unwrap_or(0);
                }
            }
            // read by mon::taint, not part of the stream model
            _ => {}
        }
    }
    m
}

/// the order in which the interpreter exposes the values of a stream: previous generations, then
/// current ones, then new ones; inside one source by generation, then by arrival
pub fn exposed_order(adds: &[Add]) -> Vec<&Add> {
    let mut v: Vec<&Add> = adds.iter().collect();
    v.sort_by_key(|a| (a.src.rank(), a.seq));
    v
}
