//! C17, canon part: arguments taken from a canonical stream keep the origin of every element.
//! Generated scripts append results of calls on several peers, literals and (lensed) scalars to a
//! stream, canonicalise it and hand `#can`, `#can.$.[i]`, `#can.$.[i].field` and the iterator of a
//! fold over `#can` to observer calls. Every appended value is unique, so the value of an element
//! identifies its origin, which the harness knows from the construction of the script.
use crate::oracle::seqsem::parse_lens;
use crate::report::*;
use crate::rng::{fnv, Rng};
use crate::sim::*;
use serde_json::{json, Value};
use std::collections::BTreeMap;

#[derive(Clone, Debug)]
struct Origin {
    peer: String,
    service: String,
    function: String,
    lens: Vec<String>,
}

pub fn run_canon(cfg: &Cfg) -> Stats {
    let n = cfg.scale(400, 8000);
    par_cases(cfg, n, |case, st| {
        let mut rng = Rng::derive(cfg.seed, 0x17ca, case);
        let n_peers = rng.range(2, 4);
        let ids = standard_peer_ids(n_peers);
        let max_arr = 3;
        let mut origins: BTreeMap<String, Origin> = BTreeMap::new();
        let mut appends: Vec<String> = vec![];
        let k = rng.range(1, 4);
        let mut element_is_obj = true;
        for i in 0..k {
            let p = ids[rng.below(n_peers)].clone();
            match rng.below(6) {
                0 => {
                    // a literal: produced by the init peer
                    let lit = format!("lit{i}");
                    origins.insert(Value::String(lit.clone()).to_string(), Origin { peer: ids[0].clone(), service: String::new(), function: String::new(), lens: vec![] });
                    appends.push(format!("(ap \"{lit}\" $s)"));
                    element_is_obj = false;
                }
                1 | 2 => {
                    // a scalar, whole or through a lens
                    let f = format!("obj{i}");
                    let (_, res) = crate::service::call_service(&ids, max_arr, &f, &[json!(i)]);
                    let v: Value = serde_json::from_str(&res).unwrap();
                    if rng.chance(1, 2) {
                        origins.insert(v.to_string(), Origin { peer: p.clone(), service: "svc".into(), function: f.clone(), lens: vec![] });
                        appends.push(format!("(seq (call \"{p}\" (\"svc\" \"{f}\") [{i}] v{i}) (ap v{i} $s))"));
                    } else {
                        origins.insert(v["a"].to_string(), Origin { peer: p.clone(), service: "svc".into(), function: f.clone(), lens: vec!["a".into()] });
                        appends.push(format!("(seq (call \"{p}\" (\"svc\" \"{f}\") [{i}] v{i}) (ap v{i}.$.a $s))"));
                        element_is_obj = false;
                    }
                }
                _ => {
                    let f = format!("f{i}");
                    let (_, res) = crate::service::call_service(&ids, max_arr, &f, &[json!(i)]);
                    let v: Value = serde_json::from_str(&res).unwrap();
                    origins.insert(v.to_string(), Origin { peer: p.clone(), service: "svc".into(), function: f.clone(), lens: vec![] });
                    appends.push(format!("(call \"{p}\" (\"svc\" \"{f}\") [{i}] $s)"));
                }
            }
        }
        let fill = if rng.chance(1, 2) { nest(&appends, "par") } else { nest(&appends, "seq") };
        let canon_peer = ids[rng.below(n_peers)].clone();
        let obs_peer = ids[rng.below(n_peers)].clone();
        let idx = rng.below(k);
        let mut uses = vec![format!("(call \"{obs_peer}\" (\"svc\" \"obsall\") [#can])")];
        uses.push(format!("(xor (call \"{obs_peer}\" (\"svc\" \"obsidx\") [#can.$.[{idx}]]) (null))"));
        if element_is_obj {
            uses.push(format!("(xor (call \"{obs_peer}\" (\"svc\" \"obsfield\") [#can.$.[{idx}].tag #can.$.[{idx}].a.b.[1]]) (null))"));
        }
        // the whole canonical stream copied into a scalar and used (possibly on another peer): the value was
        // produced by the canon instruction at the canon peer
        uses.push(format!("(seq (ap #can whole) (call \"{obs_peer}\" (\"svc\" \"obswhole\") [whole]))"));
        let it_use = if element_is_obj { "[it it.$.tag]" } else { "[it]" };
        uses.push(format!("(fold #can it (seq (call \"{obs_peer}\" (\"svc\" \"obsit\") {it_use}) (next it)))"));
        rng.shuffle(&mut uses);
        let air = format!("(seq {fill} (seq (canon \"{canon_peer}\" $s #can) {}))", nest(&uses, "seq"));
        if air_parser::parse(&air).is_err() {
            st.inc("generator_rejected_or_failed", 1);
            return;
        }
        let world = World::new(n_peers, air.clone(), None, &format!("c17canon-{}-{case}", cfg.seed), max_arr);
        let sched = super::honest::mk_sched(&mut rng);
        let h = run_random(&world, &mut rng, &sched);
        st.inc("canon_histories", 1);
        let detail = |h: &History| json!({"history": describe(&world, h, 30)});
        let mut judged = 0;
        for s in &h.steps {
            let Ok(reqs) = &s.out.requests else { continue };
            for q in reqs.values() {
                if !q.function.starts_with("obs") {
                    continue;
                }
                if q.function == "obswhole" {
                    st.inc("canon_arguments_checked", 1);
                    judged += 1;
                    let o = Origin { peer: canon_peer.clone(), service: String::new(), function: String::new(), lens: vec![] };
                    if let Some(tets) = q.tetraplets.first() {
                        check_one(st, case, &world, s.idx, &q.function, 0, tets, &o, &[], &detail(&h));
                    }
                    continue;
                }
                for (ai, (arg, tets)) in q.args.iter().zip(&q.tetraplets).enumerate() {
                    // what the argument expression was: the whole canon, an element, or a path into an element
                    let (elements, extra): (Vec<&Value>, Vec<String>) = match (q.function.as_str(), ai) {
                        ("obsall", _) => (arg.as_array().map(|a| a.iter().collect()).unwrap_or_default(), vec![]),
                        ("obsidx", _) | ("obsit", 0) => (vec![arg], vec![]),
                        ("obsfield", 0) | ("obsit", 1) => (vec![], vec!["tag".into()]),
                        ("obsfield", 1) => (vec![], vec!["a".into(), "b".into(), "[1]".into()]),
                        _ => continue,
                    };
                    st.inc("canon_arguments_checked", 1);
                    judged += 1;
                    if !extra.is_empty() {
                        // a path into an element: the origin is the element's, found through the other argument of the same request
                        let elem = if q.function == "obsit" { q.args.first() } else { None };
                        let origin = match elem {
                            Some(e) => origins.get(&e.to_string()).cloned(),
                            // obsfield: the element is identified by the tag value itself
                            None => origins.iter().find(|(v, _)| serde_json::from_str::<Value>(v).ok().map(|v| v.get("tag") == q.args.first()).unwrap_or(false)).map(|(_, o)| o.clone()),
                        };
                        let Some(o) = origin else {
                            st.inc("canon_arguments_of_unknown_origin", 1);
                            continue;
                        };
                        check_one(st, case, &world, s.idx, &q.function, ai, tets, &o, &extra, &detail(&h));
                        continue;
                    }
                    if q.function == "obsall" && tets.len() != elements.len() {
                        st.violation("C17", "canon-tetraplet-count-differs-from-element-count", &format!("step {}: #can has {} elements but {} tetraplets", s.idx, elements.len(), tets.len()), case, detail(&h));
                        continue;
                    }
                    for (ei, e) in elements.iter().enumerate() {
                        let Some(o) = origins.get(&e.to_string()) else {
                            st.inc("canon_arguments_of_unknown_origin", 1);
                            continue;
                        };
                        let t = if q.function == "obsall" { std::slice::from_ref(&tets[ei]) } else { &tets[..] };
                        check_one(st, case, &world, s.idx, &q.function, ai, t, o, &[], &detail(&h));
                    }
                }
            }
        }
        if judged > 0 {
            st.seen("judged_histories", fnv(air.as_bytes()) ^ h.decisions_hash());
        }
        if case < 2 {
            st.sample(json!({"canon_script": air}));
        }
    })
}

fn nest(parts: &[String], kw: &str) -> String {
    match parts.len() {
        0 => "(null)".into(),
        1 => parts[0].clone(),
        _ => format!("({kw} {} {})", parts[0], nest(&parts[1..], kw)),
    }
}

#[allow(clippy::too_many_arguments)]
fn check_one(st: &mut Stats, case: u64, w: &World, step: usize, func: &str, arg: usize, tets: &[(String, String, String, String)], o: &Origin, extra: &[String], detail: &Value) {
    st.inc("argument_tetraplets_checked", 1);
    st.label("argument_kinds", if extra.is_empty() { "canon-element" } else { "path-into-canon-element" });
    if tets.len() != 1 {
        st.violation("C17", "canon-element-tetraplet-count", &format!("step {step}: argument {arg} of {func} carries {} tetraplets for one element", tets.len()), case, detail.clone());
        return;
    }
    let t = &tets[0];
    let field = if t.0 != o.peer {
        Some("peer")
    } else if t.1 != o.service {
        Some("service")
    } else if t.2 != o.function {
        Some("function")
    } else {
        // the element's own lens, then optionally the selecting index, then the rest of the path
        let acc = parse_lens(&t.3);
        let mut want: Vec<String> = o.lens.clone();
        want.extend(extra.iter().cloned());
        let with_index = |acc: &[String]| -> bool {
            // drop one `[n]` accessor right after the element's own lens
            acc.len() == want.len() + 1 && acc[..o.lens.len()] == want[..o.lens.len()] && acc[o.lens.len()].starts_with('[') && acc[o.lens.len() + 1..] == want[o.lens.len()..]
        };
        if acc == want || with_index(&acc) {
            None
        } else {
            Some("lens")
        }
    };
    if let Some(f) = field {
        let kind = if extra.is_empty() { "canon-element" } else { "path-into-canon-element" };
        st.violation("C17", &format!("tetraplet-{f}-differs@{kind}"), &format!("step {step}: argument {arg} of {func}: got ({}, {:?}, {:?}, {:?}), expected ({}, {:?}, {:?}, lens {:?}{})", w.peer_name(&t.0), t.1, t.2, t.3, w.peer_name(&o.peer), o.service, o.function, o.lens, if extra.is_empty() { String::new() } else { format!(" + {:?}", extra) }), case, detail.clone());
    }
}
