//! C28: the beautifier faithfully renders the script structure.
//!
//! Generated scripts (harness AST -> AIR text) are beautified by the code under test; the output is
//! read back by an independent line reader into `(depth, text)` pairs and compared exactly with the
//! list an independent renderer derives from the harness AST and the documented output format.
use crate::ast::*;
use crate::gen::{generate, GenCfg};
use crate::invoke::guarded;
use crate::report::*;
use crate::rng::{fnv, Rng};
use air_beautifier::Beautifier;
use serde_json::json;

type Line = (usize, String);
const TAG: u64 = 28;
const PER_CASE: u64 = 200;

// ---------------------------------------------------------------- reference renderer (documented format)

/// `(new $s (new #c (canon peer $s #c)))` is the virtual `hopon peer`, unless the peer is a lens on `#c`.
fn hop_peer(ins: &Ins) -> Option<&Val> {
    let Ins::New(s, inner) = ins else { return None };
    let Ins::New(c, body) = &**inner else { return None };
    let Ins::Canon { peer, src, dst } = &**body else { return None };
    let shadows = matches!(peer, Val::VarLens(n, _) if n == c) || matches!(peer, Val::Var(n) if n.split('.').next() == Some(c.as_str()));
    (s.starts_with('$') && c.starts_with('#') && !c.starts_with("#%") && src == s && dst == c && !shadows).then_some(peer)
}

fn has_hop(ins: &Ins) -> bool {
    let mut h = false;
    ins.walk(&mut |i| h |= hop_peer(i).is_some());
    h
}

fn render(ins: &Ins, d: usize, hop: bool, out: &mut Vec<Line>) {
    let head = |out: &mut Vec<Line>, t: String| out.push((d, t));
    match ins {
        Ins::Seq(a, b) => {
            render(a, d, hop, out);
            render(b, d, hop, out);
        }
        Ins::Par(a, b) | Ins::Xor(a, b) => {
            let (k1, k2) = if matches!(ins, Ins::Par(..)) { ("par:", "|") } else { ("try:", "catch:") };
            head(out, k1.into());
            render(a, d + 1, hop, out);
            head(out, k2.into());
            render(b, d + 1, hop, out);
        }
        Ins::Match(a, b, i) | Ins::Mismatch(a, b, i) => {
            head(out, format!("{} {} {}:", ins.kind(), a.text(), b.text()));
            render(i, d + 1, hop, out);
        }
        Ins::Fold { iterable, it, body, last } => {
            head(out, format!("fold {} {it}:", iterable.text()));
            render(body, d + 1, hop, out);
            if let Some(l) = last {
                head(out, "last:".into());
                render(l, d + 1, hop, out);
            }
        }
        Ins::New(n, body) => match hop_peer(ins).filter(|_| hop) {
            Some(p) => head(out, format!("hopon {}", p.text())),
            None => {
                head(out, format!("new {n}:"));
                render(body, d + 1, hop, out);
            }
        },
        Ins::Call { peer, service, func, args, out: o } => {
            let pre = match o {
                Out::None => String::new(),
                Out::Scalar(n) | Out::Stream(n) => format!("{n} <- "),
            };
            let args: Vec<String> = args.iter().map(|a| a.text()).collect();
            head(out, format!("{pre}call {} ({}, {}) [{}]", peer.text(), service.text(), func.text(), args.join(", ")));
        }
        Ins::Canon { peer, src, dst } => head(out, format!("canon {} {src} {dst}", peer.text())),
        Ins::Ap { arg, out: o } => {
            let o = match o {
                Out::Scalar(n) | Out::Stream(n) => n.as_str(),
                Out::None => "_",
            };
            head(out, format!("ap {} {o}", arg.text()));
        }
        Ins::ApMap { key, value, map } => head(out, format!("ap ({} {}) {map}", key.text(), value.text())),
        Ins::Fail(FailBody::Lit(c, m)) => head(out, format!("fail {c} \"{m}\"")),
        Ins::Fail(FailBody::Val(v)) => head(out, format!("fail {}", v.text())),
        Ins::Next(n) => head(out, format!("next {n}")),
        Ins::Null => head(out, "null".into()),
        Ins::Never => head(out, "never".into()),
    }
}

fn expected(ins: &Ins, hop: bool) -> Vec<Line> {
    let mut v = vec![];
    render(ins, 0, hop, &mut v);
    v
}

/// (simple instructions, compound instructions other than seq), a hop idiom counting as one simple one
fn counts(ins: &Ins, hop: bool) -> (usize, usize) {
    match ins {
        Ins::Seq(a, b) => (counts(a, hop).0 + counts(b, hop).0, counts(a, hop).1 + counts(b, hop).1),
        Ins::Par(a, b) | Ins::Xor(a, b) => (counts(a, hop).0 + counts(b, hop).0, 1 + counts(a, hop).1 + counts(b, hop).1),
        Ins::New(..) if hop && hop_peer(ins).is_some() => (1, 0),
        Ins::New(_, b) | Ins::Match(_, _, b) | Ins::Mismatch(_, _, b) => (counts(b, hop).0, 1 + counts(b, hop).1),
        Ins::Fold { body, last, .. } => {
            let l = last.as_ref().map(|l| counts(l, hop)).unwrap_or((0, 0));
            (counts(body, hop).0 + l.0, 1 + counts(body, hop).1 + l.1)
        }
        _ => (1, 0),
    }
}

// ---------------------------------------------------------------- independent line reader and comparison

fn read(text: &str, step: usize) -> Result<Vec<Line>, String> {
    let body = text.strip_suffix('\n').ok_or("output does not end with a newline")?;
    let mut v = vec![];
    for (i, l) in body.split('\n').enumerate() {
        let ind = l.len() - l.trim_start_matches(' ').len();
        let t = l[ind..].trim_end();
        if t.is_empty() || t.starts_with(char::is_whitespace) {
            return Err(format!("line {i} is blank or indented with something else than spaces: {l:?}"));
        }
        if ind % step != 0 {
            return Err(format!("line {i}: indentation {ind} is not a multiple of the step {step}: {l:?}"));
        }
        v.push((ind / step, t.to_string()));
    }
    Ok(v)
}

fn keyword(t: &str) -> &str {
    if t.contains(" <- call ") {
        return "call";
    }
    t.split(' ').next().unwrap_or("").trim_end_matches(':')
}

/// a header or separator line: not an instruction of its own, or a compound instruction
fn structural(t: &str) -> bool {
    t == "|" || (t.ends_with(':') && matches!(keyword(t), "par" | "try" | "catch" | "last" | "match" | "mismatch" | "fold" | "new"))
}

fn compound_header(t: &str) -> bool {
    structural(t) && !matches!(t, "|" | "catch:" | "last:")
}

/// First difference between the expected and the observed list: (signature, description).
fn diff(exp: &[Line], got: &[Line]) -> Option<(String, String)> {
    let i = (0..exp.len().max(got.len())).find(|&i| exp.get(i) != got.get(i))?;
    let show = |l: Option<&Line>| l.map(|(d, t)| format!("depth {d} `{t}`")).unwrap_or_else(|| "<end of output>".into());
    let what = format!("line {i}: expected {}, got {} ({} expected lines, {} lines in the output)", show(exp.get(i)), show(got.get(i)), exp.len(), got.len());
    let sig = match (exp.get(i), got.get(i)) {
        (Some((_, e)), None) => format!("lines-missing@{}", keyword(e)),
        (None, _) => "extra-lines".to_string(),
        (Some((de, e)), Some((dg, g))) if e == g => format!("depth-differs@{}{}", keyword(e), if dg > de { "+" } else { "-" }),
        (Some((_, e)), Some((_, g))) if exp.len() != got.len() => format!("{}@{}", if got.len() < exp.len() { "instruction-dropped" } else { "instruction-added" }, keyword(if got.len() < exp.len() { e } else { g })),
        (Some((_, e)), Some((_, g))) if keyword(e) != keyword(g) || structural(e) != structural(g) => format!("instruction-differs@{}", keyword(e)),
        (Some((_, e)), Some(_)) => format!("operand-differs@{}", keyword(e)),
    };
    Some((sig, what))
}

// ---------------------------------------------------------------- the code under test

/// step None = the crate-level `beautify` function (default step 4)
fn beautify(text: &str, step: Option<usize>, patterns: bool) -> Result<Result<String, String>, (String, String)> {
    guarded(|| {
        let mut out: Vec<u8> = vec![];
        let r = match step {
            None => air_beautifier::beautify(text, &mut out, patterns),
            Some(s) => {
                let b = Beautifier::new_with_indent(&mut out, s);
                let mut b = if patterns { b.enable_all_patterns() } else { b };
                b.beautify(text)
            }
        };
        r.map_err(|e| e.to_string()).map(|_| String::from_utf8_lossy(&out).into_owned())
    })
}

// ---------------------------------------------------------------- script variants

/// Rebuild the tree, passing every value operand through `f(value, free)`; `free` marks positions
/// where the grammar takes any value expression (call arguments, match operands, ap argument).
fn map_vals(ins: &Ins, f: &mut dyn FnMut(&Val, bool) -> Val) -> Ins {
    let bx = |i: &Ins, f: &mut dyn FnMut(&Val, bool) -> Val| Box::new(map_vals(i, f));
    match ins {
        Ins::Call { peer, service, func, args, out } => Ins::Call { peer: f(peer, false), service: f(service, false), func: f(func, false), args: args.iter().map(|a| f(a, true)).collect(), out: out.clone() },
        Ins::Canon { peer, src, dst } => Ins::Canon { peer: f(peer, false), src: src.clone(), dst: dst.clone() },
        Ins::Ap { arg, out } => Ins::Ap { arg: f(arg, true), out: out.clone() },
        Ins::ApMap { key, value, map } => Ins::ApMap { key: f(key, false), value: f(value, true), map: map.clone() },
        Ins::Seq(a, b) => Ins::Seq(bx(a, f), bx(b, f)),
        Ins::Par(a, b) => Ins::Par(bx(a, f), bx(b, f)),
        Ins::Xor(a, b) => Ins::Xor(bx(a, f), bx(b, f)),
        Ins::New(n, b) => Ins::New(n.clone(), bx(b, f)),
        Ins::Fail(FailBody::Val(v)) => Ins::Fail(FailBody::Val(f(v, false))),
        Ins::Fold { iterable, it, body, last } => Ins::Fold { iterable: f(iterable, false), it: it.clone(), body: bx(body, f), last: last.as_ref().map(|l| bx(l, f)) },
        Ins::Match(a, b, i) => Ins::Match(f(a, true), f(b, true), bx(i, f)),
        Ins::Mismatch(a, b, i) => Ins::Mismatch(f(a, true), f(b, true), bx(i, f)),
        Ins::Never | Ins::Null | Ins::Next(_) | Ins::Fail(FailBody::Lit(..)) => ins.clone(),
    }
}

/// (spelling in the script, the same operand in the spelling used throughout the documentation)
const OPERANDS: &[(&str, &str)] = &[
    ("1.0", "1.0"),
    ("-0.0", "-0.0"),
    ("100.0", "100.0"),
    ("2.50", "2.5"),
    ("+3.5", "3.5"),
    ("007.5", "7.5"),
    ("0.000001", "0.000001"),
    ("12345678.9", "12345678.9"),
    ("-7.25", "-7.25"),
    ("+7", "7"),
    ("007", "7"),
    ("-0", "0"),
    ("9223372036854775807", "9223372036854775807"),
    ("-9223372036854775808", "-9223372036854775808"),
    ("\"\"", "\"\""),
    ("\"two words, (par) [x] | : <- \"", "\"two words, (par) [x] | : <- \""),
    ("\"\u{fc}n\u{ef}c\u{f6}d\u{e9} \u{4e16}\u{754c}\"", "\"\u{fc}n\u{ef}c\u{f6}d\u{e9} \u{4e16}\u{754c}\""),
    ("\"#c $s %m .$.a\"", "\"#c $s %m .$.a\""),
    ("%last_error%", "%last_error%"),
    ("%last_error%.$.message", "%last_error%.$.message"),
    ("%last_error%.$.message!", "%last_error%.$.message"),
    (":error:", ":error:"),
    (":error:.$.error_code", ":error:.$.error_code"),
    ("%init_peer_id%", "%init_peer_id%"),
    ("%timestamp%", "%timestamp%"),
    ("%ttl%", "%ttl%"),
    ("[]", "[]"),
    ("true", "true"),
    ("false", "false"),
];

/// Spelling of the replaced operands: as put into the script / the plain spelling of the same
/// operand / the plain spelling with whole-valued floats cut to integers (a known misprint, which
/// changes the operand: `1.0` and `1` do not match each other).
#[derive(Clone, Copy, PartialEq)]
enum Spell {
    Script,
    Plain,
    PlainWholeFloatsCut,
}

/// Replace operands by other spellings; all modes draw the same random numbers.
fn respell(v: &Val, free: bool, rng: &mut Rng, mode: Spell) -> Val {
    let r = rng.below(100);
    match v {
        Val::VarLens(n, Lens::Path(p)) if r < 60 => {
            let mut s = format!("{n}.$");
            for a in p {
                let dot = if rng.chance(1, 2) { "." } else { "" };
                match a {
                    Acc::Idx(i) => s += &format!("{dot}[{}{i}]", if rng.chance(1, 3) { "0" } else { "" }),
                    Acc::ByScalar(x) => s += &format!("{dot}[{x}]"),
                    Acc::Field(x) => s += &format!(".{x}"),
                }
            }
            // the flattening sign is accepted at the end of a lens only
            if rng.chance(1, 3) {
                s.push('!');
            }
            if mode == Spell::Script { Val::Var(s) } else { v.clone() }
        }
        _ if free && r < 30 => {
            let (a, c) = *rng.pick(OPERANDS);
            Val::Var(match mode {
                Spell::Script => a.to_string(),
                Spell::Plain => c.to_string(),
                Spell::PlainWholeFloatsCut => match c.split_once('.') {
                    Some((int, frac)) if !c.starts_with(['"', '%', ':']) && frac.bytes().all(|b| b == b'0') => int.to_string(),
                    _ => c.to_string(),
                },
            })
        }
        _ => v.clone(),
    }
}

/// Insert the hop idiom (and look-alikes that are not the idiom) next to calls, reusing their peer operand.
fn add_hops(ins: &Ins, rng: &mut Rng, n: &mut usize) -> Ins {
    let bx = |i: &Ins, rng: &mut Rng, n: &mut usize| Box::new(add_hops(i, rng, n));
    match ins {
        Ins::Call { peer, .. } if rng.chance(1, 3) => {
            *n += 1;
            let (s, c) = (format!("$hop{n}"), format!("#hop{n}"));
            let canon = |src: &str, dst: &str| Ins::Canon { peer: peer.clone(), src: src.into(), dst: dst.into() };
            let nn = |a: &str, b: &str, i: Ins| Ins::New(a.into(), Box::new(Ins::New(b.into(), Box::new(i))));
            let h = match rng.below(10) {
                // look-alikes: other canon name, other stream name, `new`s the other way round, a longer body,
                // the peer read from the very canon stream the idiom would hide
                0 => nn(&s, &c, canon(&s, "#other")),
                1 => nn(&s, &c, canon("$other", &c)),
                2 => nn(&c, &s, canon(&s, &c)),
                3 => nn(&s, &c, seq(canon(&s, &c), Ins::Null)),
                4 => {
                    let shadowed = Ins::Canon { peer: Val::VarLens(c.clone(), Lens::Path(vec![Acc::Idx(0)])), src: s.clone(), dst: c.clone() };
                    Ins::New(c.clone(), Box::new(nn(&s, &c, shadowed)))
                }
                // the idiom, also directly inside another `new`
                5 => Ins::New("$outer".into(), Box::new(nn(&s, &c, canon(&s, &c)))),
                _ => nn(&s, &c, canon(&s, &c)),
            };
            match rng.below(4) {
                0 => seq(h, ins.clone()),
                1 => par(ins.clone(), h),
                2 => xor(h, ins.clone()),
                _ => seq(ins.clone(), h),
            }
        }
        Ins::Seq(a, b) => Ins::Seq(bx(a, rng, n), bx(b, rng, n)),
        Ins::Par(a, b) => Ins::Par(bx(a, rng, n), bx(b, rng, n)),
        Ins::Xor(a, b) => Ins::Xor(bx(a, rng, n), bx(b, rng, n)),
        Ins::New(x, b) => Ins::New(x.clone(), bx(b, rng, n)),
        Ins::Match(x, y, b) => Ins::Match(x.clone(), y.clone(), bx(b, rng, n)),
        Ins::Mismatch(x, y, b) => Ins::Mismatch(x.clone(), y.clone(), bx(b, rng, n)),
        Ins::Fold { iterable, it, body, last } => Ins::Fold { iterable: iterable.clone(), it: it.clone(), body: bx(body, rng, n), last: last.clone() },
        _ => ins.clone(),
    }
}

// ---------------------------------------------------------------- one script

fn lines_json(l: &[Line]) -> serde_json::Value {
    json!(l.iter().map(|(d, t)| format!("{d}|{t}")).collect::<Vec<_>>())
}

fn gen_script(rng: &mut Rng, peers: &[String]) -> Ins {
    let n = rng.range(3, 5);
    let budget = rng.range(4, 40);
    let mut g = if rng.chance(1, 3) { GenCfg::fseq(n, budget) } else { GenCfg::fstream(n, budget) };
    g.max_depth = rng.range(2, 12);
    g.error_vals = rng.chance(1, 2);
    generate(rng, &g, &peers[..n]).ins
}

fn check_script(rng: &mut Rng, peers: &[String], case: u64, st: &mut Stats) {
    let base = gen_script(rng, peers);
    // the script in the spelling fed to the beautifier; for respelled operands also the same script
    // in plain spelling and in plain spelling with the known whole-float misprint
    let (script, others, class) = match rng.below(4) {
        0 => (add_hops(&base, rng, &mut 0), None, "hop_idioms"),
        1 => {
            let sub = Rng::new(rng.next_u64());
            let sp = |mode| {
                let mut r = sub.clone();
                map_vals(&base, &mut |v, free| respell(v, free, &mut r, mode))
            };
            (sp(Spell::Script), Some((sp(Spell::Plain), sp(Spell::PlainWholeFloatsCut))), "respelled_operands")
        }
        _ => (base, None, "plain"),
    };
    let text = script.text();
    let mut not_air = false;
    script.walk(&mut |i| not_air |= matches!(i, Ins::Ap { arg: v, .. } | Ins::ApMap { value: v, .. } if v.text().starts_with("#%")));
    if not_air {
        // the generator's `ap` of a canonicalised map is not AIR: nothing to beautify
        return st.inc("generated_script_known_not_air", 1);
    }
    // one report per script and signature, whichever output variant shows it first
    let reported = std::cell::RefCell::new(Vec::<String>::new());
    let viol = |st: &mut Stats, sig: &str, what: String, detail: serde_json::Value| {
        if reported.borrow().iter().any(|s| s == sig) {
            return;
        }
        reported.borrow_mut().push(sig.to_string());
        st.violation("C28", sig, &format!("{what}; script: {}", crate::proj::trunc(&text.replace('\n', " "), 1500)), case, json!({"script": text, "class": class, "detail": detail}));
    };
    match guarded(|| air_parser::parse(&text).map(|_| ())) {
        Ok(Ok(())) => {}
        Ok(Err(e)) => {
            st.inc(&format!("script_not_accepted_by_parser[{class}]"), 1);
            if st.labels.get("parser_rejections").map_or(0, |s| s.len()) < 10 {
                st.label("parser_rejections", &crate::proj::trunc(&e, 300));
            }
            return;
        }
        Err((loc, msg)) => return viol(st, &format!("panic@{loc}"), format!("the parser panicked: {msg}"), json!(null)),
    }
    st.inc("scripts_compared", 1);
    st.inc(&format!("scripts[{class}]"), 1);
    let hop = has_hop(&script);
    let (simple, compound) = counts(&script, false);
    if compound > 0 {
        st.seen("scripts_with_compound_instructions", fnv(text.as_bytes()));
    }
    script.walk(&mut |i| st.label("instruction_kinds", i.kind()));
    st.inc("instructions", script.count() as u64);

    let mut outs: Vec<(String, Vec<Line>)> = vec![];
    let extra_step = *rng.pick(&[1usize, 3, 5]);
    for (name, step, patterns) in [("default", None, false), ("step2", Some(2), false), ("step4", Some(4), false), ("step8", Some(8), false), ("stepx", Some(extra_step), false), ("default+patterns", None, true), ("step2+patterns", Some(2), true)] {
        let out = match beautify(&text, step, patterns) {
            Ok(Ok(o)) => o,
            Ok(Err(e)) => {
                viol(st, "accepted-script-not-beautified", format!("[{name}] the parser accepts the script but beautify returned an error: {e}"), json!(null));
                continue;
            }
            Err((loc, msg)) => {
                viol(st, &format!("panic@{loc}"), format!("[{name}] beautify panicked: {msg}"), json!(null));
                continue;
            }
        };
        let got = match read(&out, step.unwrap_or(4)) {
            Ok(g) => g,
            Err(e) => {
                viol(st, "output-not-line-structured", format!("[{name}] {e}"), json!({"output": out}));
                continue;
            }
        };
        let exp = expected(&script, patterns);
        if let Some(d) = diff(&exp, &got) {
            // respelled operands: the same operand in its plain spelling is not a difference the property is
            // about; the known misprint gets a signature of its own; anything beyond it is reported as it is
            let found = match &others {
                None => Some(d),
                Some((plain, cut)) => match (diff(&expected(plain, patterns), &got), diff(&expected(cut, patterns), &got)) {
                    (None, _) => None,
                    (Some(dp), None) => Some(("operand-differs@whole-float-printed-as-integer".to_string(), dp.1)),
                    (Some(_), Some(dc)) => Some(dc),
                },
            };
            match found {
                None => st.inc("odd_but_allowed_operand_printed_in_plain_spelling", 1),
                Some((sig, what)) => viol(st, &sig, format!("[{name}] {what}"), json!({"expected": lines_json(&exp), "got": lines_json(&got), "output": out})),
            }
        }
        // cheap invariants on the output alone
        let (s, c) = if patterns { counts(&script, true) } else { (simple, compound) };
        let gs = got.iter().filter(|(_, t)| !structural(t)).count();
        let gc = got.iter().filter(|(_, t)| compound_header(t)).count();
        if gs != s || gc != c {
            viol(st, "instruction-count-differs", format!("[{name}] the script has {s} simple and {c} compound instructions, the output lists {gs} and {gc}"), json!({"got": lines_json(&got)}));
        }
        st.inc("outputs_compared", 1);
        if let Some(m) = got.iter().map(|(d, _)| *d).max() {
            st.label("output_nesting_depths", &format!("{m:02}"));
        }
        if patterns && got.iter().any(|(_, t)| t.starts_with("hopon ")) {
            st.inc("outputs_with_hopon", 1);
        }
        outs.push((out, got));
    }
    if outs.len() == 7 {
        for k in 1..5 {
            if outs[k].1 != outs[0].1 {
                viol(st, "indent-step-changes-structure", format!("variant {k} lists other lines than the default step: {:?}", diff(&outs[0].1, &outs[k].1)), json!({"default": outs[0].0, "other": outs[k].0}));
            }
        }
        if outs[0].0 != outs[2].0 {
            viol(st, "default-step-is-not-4", "beautify() and Beautifier::new_with_indent(4) differ".into(), json!({"default": outs[0].0, "step4": outs[2].0}));
        }
        match guarded(|| air_beautifier::beautify_to_string(&text)) {
            Ok(Ok(s)) if s == outs[0].0 => {}
            other => viol(st, "beautify_to_string-differs", format!("beautify_to_string gives {other:?}"), json!({"default": outs[0].0})),
        }
        // patterns: without the hop idiom nothing may change; with it, only the idiom's lines
        if !hop {
            st.inc("pattern_free_scripts_compared_bytewise", 1);
            if outs[5].0 != outs[0].0 {
                viol(st, "patterns-change-pattern-free-script", "enabling patterns changed the output of a script without the hop idiom".into(), json!({"off": outs[0].0, "on": outs[5].0}));
            }
        } else {
            st.inc("scripts_with_hop_idiom", 1);
            let (off, on) = (&outs[0].1, &outs[5].1);
            // independent of the renderer: replacing the hop regions of the patterns-off lines gives the patterns-on lines
            if let Some(d) = diff(&fold_hops(off), on) {
                viol(st, "patterns-change-lines-outside-hop", format!("patterns-off output with its hop regions replaced differs from the patterns-on output: {d:?}"), json!({"off": outs[0].0, "on": outs[5].0}));
            }
        }
        if compound > 0 && text.len() < 700 && st.samples.iter().all(|s| s["class"] != class) {
            st.sample(json!({"class": class, "script": text, "expected": lines_json(&expected(&script, false)), "got": lines_json(&outs[0].1), "got_with_patterns": lines_json(&outs[5].1)}));
        }
    }
}

/// Replace the hop regions of a patterns-off output by `hopon peer` lines, working on the lines alone:
/// `new $s:` / `new #c:` / `canon peer $s #c` at depths d, d+1, d+2 with nothing else inside.
fn fold_hops(l: &[Line]) -> Vec<Line> {
    let mut v = vec![];
    let mut i = 0;
    while i < l.len() {
        let hop = (|| {
            let (a, b, c) = (l.get(i)?, l.get(i + 1)?, l.get(i + 2)?);
            let s = a.1.strip_prefix("new ")?.strip_suffix(':').filter(|s| s.starts_with('$'))?;
            let cn = b.1.strip_prefix("new ")?.strip_suffix(':').filter(|s| s.starts_with('#'))?;
            let peer = c.1.strip_prefix("canon ")?.strip_suffix(&format!(" {s} {cn}"))?;
            let alone = l.get(i + 3).map(|n| n.0 <= a.0).unwrap_or(true);
            (b.0 == a.0 + 1 && c.0 == a.0 + 2 && alone && !peer.starts_with(&format!("{cn}."))).then(|| (a.0, format!("hopon {peer}")))
        })();
        match hop {
            Some(h) => {
                v.push(h);
                i += 3;
            }
            None => {
                v.push(l[i].clone());
                i += 1;
            }
        }
    }
    v
}

// ---------------------------------------------------------------- sensitivity self-test

fn to_text(l: &[Line], step: usize) -> String {
    l.iter().map(|(d, t)| format!("{}{t}\n", " ".repeat(d * step))).collect()
}

/// Corrupt faithful outputs in the ways the property forbids; every corruption must be noticed.
fn self_test(cfg: &Cfg, peers: &[String], st: &mut Stats) {
    for i in 0..150u64 {
        let mut rng = Rng::derive(cfg.seed, TAG + 1000, i);
        let ins = gen_script(&mut rng, peers);
        let exp = expected(&ins, false);
        let good = to_text(&exp, 4);
        if read(&good, 4).as_ref() != Ok(&exp) {
            st.inconclusive.push("self-test: the line reader does not read back a faithful rendering".into());
            return;
        }
        let k = rng.below(exp.len());
        let mut bad: Vec<(&str, Vec<Line>, Option<String>)> = vec![];
        let mut with = |name: &'static str, f: &dyn Fn(&mut Vec<Line>) -> bool| {
            let mut l = exp.clone();
            if f(&mut l) {
                bad.push((name, l, None));
            }
        };
        with("drop-line", &|l| {
            l.remove(k);
            true
        });
        with("duplicate-line", &|l| {
            l.insert(k, l[k].clone());
            true
        });
        with("indent-one-step-more", &|l| {
            l[k].0 += 1;
            true
        });
        with("indent-one-step-less", &|l| {
            let j = (0..l.len()).map(|x| (x + k) % l.len()).find(|&x| l[x].0 > 0);
            j.map(|j| l[j].0 -= 1).is_some()
        });
        with("swap-lines", &|l| {
            let j = (0..l.len() - 1).map(|x| (x + k) % (l.len() - 1)).find(|&x| l[x] != l[x + 1]);
            j.map(|j| l.swap(j, j + 1)).is_some()
        });
        with("change-operand", &|l| {
            let j = (0..l.len()).map(|x| (x + k) % l.len()).find(|&x| l[x].1.contains(' '));
            j.map(|j| {
                let t = &mut l[j].1;
                let p = t.rfind(|c: char| c.is_ascii_alphanumeric()).unwrap();
                let c = if &t[p..p + 1] == "7" { "8" } else { "7" };
                t.replace_range(p..p + 1, c);
            })
            .is_some()
        });
        with("change-keyword", &|l| {
            let j = (0..l.len()).map(|x| (x + k) % l.len()).find(|&x| matches!(l[x].1.as_str(), "par:" | "try:"));
            j.map(|j| l[j].1 = if l[j].1 == "par:" { "try:".into() } else { "par:".into() }).is_some()
        });
        with("drop-output-arrow", &|l| {
            let j = (0..l.len()).map(|x| (x + k) % l.len()).find(|&x| l[x].1.contains(" <- call "));
            j.map(|j| l[j].1 = l[j].1.split_once(" <- ").unwrap().1.to_string()).is_some()
        });
        // one space too many: not a multiple of the step
        let mut t = to_text(&exp, 4);
        let pos = t.match_indices('\n').nth(k).map(|(p, _)| p + 1).filter(|p| *p < t.len()).unwrap_or(0);
        t.insert(pos, ' ');
        bad.push(("indent-one-space", vec![], Some(t)));
        for (name, lines, raw) in bad {
            let text = raw.unwrap_or_else(|| to_text(&lines, 4));
            let caught = match read(&text, 4) {
                Err(_) => true,
                Ok(g) => diff(&exp, &g).is_some(),
            };
            st.inc("selftest_corruptions", 1);
            if caught {
                st.inc("selftest_corruptions_detected", 1);
                st.label("selftest_corruption_kinds", name);
            } else {
                st.inconclusive.push(format!("self-test: corruption `{name}` of a faithful output was not detected (self-test script {i})"));
            }
        }
    }
}

pub fn run(cfg: &Cfg) -> Report {
    let peers = crate::sim::standard_peer_ids(5);
    let n_cases = cfg.scale(100, 5000);
    let mut stats = par_cases(cfg, n_cases, |case, st| {
        let mut rng = Rng::derive(cfg.seed, TAG, case);
        for _ in 0..PER_CASE {
            check_script(&mut rng, &peers, case, st);
        }
    });
    if cfg.only_case.is_none() {
        self_test(cfg, &peers, &mut stats);
        let rejected: u64 = stats.counters.iter().filter(|(k, _)| k.starts_with("script_not_accepted_by_parser")).map(|(_, v)| *v).sum();
        if rejected * 50 > stats.get("scripts_compared") {
            stats.inconclusive.push(format!("{rejected} generated scripts were not accepted by the parser (generator problem)"));
        }
        for k in ["scripts[hop_idioms]", "scripts[respelled_operands]", "outputs_with_hopon", "scripts_with_hop_idiom"] {
            if stats.get(k) == 0 {
                stats.inconclusive.push(format!("nothing counted under {k}"));
            }
        }
    }
    crate::sanitize::passes_for("C28", cfg, &mut stats);
    Report {
        prop: "C28",
        level: "exploration",
        stats,
        evaluations_key: "scripts_compared",
        nontrivial_key: "scripts_with_compound_instructions",
        rule: "scripts from the harness generator (sequential and stream fragments, 3-5 peers, budget 4-40, nesting limit 2-12; a quarter with hand-built hop idioms and look-alikes inserted next to calls, a quarter with operands respelled or replaced by literal/number/error operands) are printed as AIR text and beautified with the crate function, with indent steps 2/4/8 and one of 1/3/5, and with patterns on; an independent reader turns each output into (depth, text) lines which must equal, line by line, the list rendered from the harness syntax tree by the documented format (seq flattened; par:/| ; try:/catch: ; match/mismatch/fold/new headers with ':' and bodies one level deeper; last: ; calls as `out <- call peer (svc, fn) [a, b]`; hopon only with patterns on). evaluations = scripts beautified and compared; non-trivial = the script has at least one par/xor/fold/new/match/mismatch; distinct by the script text".into(),
        assumptions: vec![
            "output format as in the beautifier's tests and sources: one line per instruction, indentation = depth * step".into(),
            "an operand printed in its plain spelling (no '+', no leading or trailing zeros, '.[i]' accessors, no '!') counts as printed as in the script; a float that loses its fractional part does not".into(),
        ],
    }
}
