//! C20: execution is deterministic (same process and fresh process).
use super::honest::*;
use crate::invoke::*;
use crate::proj;
use crate::report::*;
use serde_json::{json, Value};

/// canonical digest of an outcome: everything the property lists, order-insensitive for maps
pub fn outcome_digest(o: &RunOutcome) -> String {
    let data = match proj::decode(&o.data) {
        Ok(v) => serde_json::to_string(&json!({"dv": v.data_version, "iv": v.interpreter_version, "data": sort_value(&v.data)})).unwrap_or_default(),
        Err(e) => format!("undecodable:{e}:{}", crate::rng::fnv(&o.data)),
    };
    let reqs = match &o.requests {
        Ok(r) => format!("{:?}", r),
        Err(e) => format!("err:{e}"),
    };
    let mut np = o.next_peers.clone();
    np.sort();
    np.dedup();
    format!("code={}|msg={}|data={}|reqs={}|next={:?}|flags={:?}", o.ret_code, o.error_message, data, reqs, np, o.flags)
}

pub fn sort_value(v: &Value) -> Value {
    match v {
        Value::Object(m) => {
            let mut keys: Vec<&String> = m.keys().collect();
            keys.sort();
            let mut out = serde_json::Map::new();
            for k in keys {
                out.insert(k.clone(), sort_value(&m[k]));
            }
            Value::Object(out)
        }
        Value::Array(a) => Value::Array(a.iter().map(sort_value).collect()),
        o => o.clone(),
    }
}

fn diff_field(a: &str, b: &str) -> String {
    let fa: Vec<&str> = a.split('|').collect();
    let fb: Vec<&str> = b.split('|').collect();
    for (x, y) in fa.iter().zip(fb.iter()) {
        if x != y {
            return format!("{} vs {}", proj::trunc(x, 300), proj::trunc(y, 300));
        }
    }
    "length".into()
}

pub fn check_input(input: &RunInput, first: &RunOutcome, st: &mut Stats, case: u64, ctx: &dyn Fn() -> Value) -> String {
    check_input_opt(input, first, st, case, ctx, true)
}

/// digest without the message field (for undecodable data the message quotes the decoder's error,
/// which prints memory addresses)
fn without_message(d: &str) -> String {
    d.split('|').filter(|f| !f.starts_with("msg=")).collect::<Vec<_>>().join("|")
}

pub fn check_input_opt(input: &RunInput, first: &RunOutcome, st: &mut Stats, case: u64, ctx: &dyn Fn() -> Value, with_message: bool) -> String {
    let full0 = outcome_digest(first);
    let d0 = if with_message { full0.clone() } else { without_message(&full0) };
    for k in 0..2 {
        let o = invoke(input);
        st.inc("reexecutions", 1);
        let full = outcome_digest(&o);
        if !with_message && full != full0 && without_message(&full) == d0 {
            st.inc("info_message_differs_between_runs_on_damaged_data", 1);
        }
        let d = if with_message { full } else { without_message(&full) };
        if d != d0 {
            let field = d0.split('|').zip(d.split('|')).find(|(a, b)| a != b).map(|(a, _)| a.split('=').next().unwrap_or("?").to_string()).unwrap_or_default();
            st.violation("C20", &format!("nondeterministic-{field}@same-process"), &format!("re-execution {k} of the same input differs in {field}: {}", diff_field(&d0, &d)), case, ctx());
            break;
        }
    }
    d0
}

pub fn run(cfg: &Cfg) -> Report {
    let n = cfg.scale(500, 10000);
    let exe = std::env::current_exe().ok();
    let stats = run_honest(cfg, 20, n, &[Frag::Seq, Frag::Stream], |c, case, rng, st| {
        let mut batch: Vec<(RunInput, String)> = vec![];
        for s in &c.history.steps {
            st.inc("inputs_checked", 1);
            st.seen("distinct_inputs", super::c02::input_hash(&s.input));
            let d0 = check_input(&s.input, &s.out, st, case, &|| json!({"step": s.idx, "history": history_sample(c, 40)}));
            if rng.chance(1, 4) {
                batch.push((s.input.clone(), d0));
            }
        }
        // odd call-result maps: unknown ids make the run end with 30000 and a message listing them
        if let Some(s) = c.history.steps.iter().find(|s| s.produced_new_data()) {
            let mut input = s.input.clone();
            input.prev = s.out.data.clone();
            input.cur = vec![];
            let mut m = std::collections::BTreeMap::new();
            for k in 0..rng.range(2, 5) {
                m.insert(format!("{}", 1000 + k * 7), (0, format!("\"leftover{k}\"")));
            }
            input.call_results = CallResultsIn::Map(m);
            let o = invoke(&input);
            st.inc("inputs_checked", 1);
            st.inc("inputs_with_unknown_result_ids", 1);
            st.seen("distinct_inputs", super::c02::input_hash(&input));
            let d0 = check_input(&input, &o, st, case, &|| json!({"kind": "unknown call result ids", "air": c.world.air, "ret_code": o.ret_code, "message": o.error_message}));
            batch.push((input, d0));
        }
        // damaged current data (the property quantifies over any inputs, not only accepted ones): single
        // bit flips, truncations and splices of honest data, each executed three times
        let cands: Vec<&crate::sim::Step> = c.history.steps.iter().filter(|s| !s.input.cur.is_empty()).collect();
        for _ in 0..4.min(cands.len()) {
            let s = cands[rng.below(cands.len())];
            let mut input = s.input.clone();
            input.cur = if rng.chance(2, 3) {
                let mut b = s.input.cur.clone();
                let i = rng.below(b.len());
                b[i] ^= 1 << rng.below(8);
                b
            } else {
                crate::tamper::mutate_bytes(rng, &s.input.cur)
            };
            let o = invoke(&input);
            st.inc("inputs_checked", 1);
            st.inc("inputs_with_damaged_current_data", 1);
            st.seen("distinct_inputs", super::c02::input_hash(&input));
            // code, data, requests and next peers are compared; the message only for accepted data (for
            // rejected data it quotes the decoder's error text, which prints memory addresses)
            let accepted = matches!(classify(o.ret_code), CodeClass::Success | CodeClass::Catchable | CodeClass::Farewell);
            let d0 = check_input_opt(&input, &o, st, case, &|| json!({"kind": "damaged current data", "step": s.idx, "input": serde_json::to_value(&input).unwrap_or_default()}), accepted);
            if accepted && rng.chance(1, 2) {
                batch.push((input, d0));
            }
        }
        // fresh process
        if let Some(exe) = &exe {
            if !batch.is_empty() {
                let inputs: Vec<&RunInput> = batch.iter().map(|b| &b.0).collect();
                match crate::sentry::reexec_in_fresh_process(exe, &inputs) {
                    Ok(digests) => {
                        for ((input, d0), d) in batch.iter().zip(digests.iter()) {
                            st.inc("fresh_process_reexecutions", 1);
                            if d != d0 {
                                let field = d0.split('|').zip(d.split('|')).find(|(a, b)| a != b).map(|(a, _)| a.split('=').next().unwrap_or("?").to_string()).unwrap_or_default();
                                st.violation("C20", &format!("nondeterministic-{field}@fresh-process"), &format!("a fresh process gives a different {field}: {}", diff_field(d0, d)), case, json!({"air": input.air}));
                            }
                        }
                    }
                    Err(e) => st.inconclusive.push(format!("fresh-process re-execution failed: {e}")),
                }
            }
        }
    });
    Report {
        prop: "C20",
        level: "exploration",
        stats,
        evaluations_key: "inputs_checked",
        nontrivial_key: "distinct_inputs",
        rule: "every run input of generated honest histories, plus inputs carrying 2-5 call results under unknown ids and inputs whose current data is damaged (bit flips, truncations, splices), is executed three times in one process and (a quarter of them) once more in a fresh process; code, message, decoded data (maps compared as maps), decoded call requests and the set of next peers must be equal; distinct by input hash".into(),
        assumptions: vec!["byte order of encoded maps is not compared".into(), "for damaged current data that is rejected, the message is not compared (it quotes the decoder's error, which prints memory addresses; the property's quantifier is the runs of simulated histories): code, data, requests and next peers are".into()],
    }
}
