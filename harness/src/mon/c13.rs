//! C13: streams hold exactly the merged appends; stream folds visit each value once.
use super::honest::*;
use super::streams::{self, Src};
use crate::invoke::*;
use crate::proj::{self, St};
use crate::report::*;
use serde_json::json;
use std::collections::{BTreeMap, BTreeSet};

pub fn run(cfg: &Cfg) -> Report {
    let n = cfg.scale(1500, 40000);
    let stats = run_honest(cfg, 13, n, &[Frag::Stream, Frag::StreamNoFail], |c, case, _rng, st| {
        let w = &c.world;
        for s in &c.history.steps {
            if s.out.events.is_empty() {
                continue;
            }
            st.inc("runs_with_stream_events", 1);
            let failed_hard = matches!(s.class(), CodeClass::Uncatchable | CodeClass::Preparation | CodeClass::Other);
            let m = streams::build(&s.out.events);
            for e in &m.malformed {
                st.inconclusive.push(format!("case {case} step {}: hook event stream malformed: {e}", s.idx));
            }
            let ctx = || json!({"step": s.idx, "history": history_sample(c, 60)});
            // (1) no value is put into a stream twice, none of the output's stream value entries is missing
            let mut seen_pos: BTreeMap<u32, usize> = BTreeMap::new();
            for inst in &m.instances {
                for a in &inst.adds {
                    st.inc("stream_values_observed", 1);
                    if let Some(other) = seen_pos.insert(a.trace_pos, inst.id) {
                        st.violation("C13", "value-added-twice", &format!("step {} at {}: the value at trace position {} was put into a stream twice (instances {} and {} of {})", s.idx, w.peers[s.peer].name, a.trace_pos, other, inst.id, inst.name), case, ctx());
                    }
                }
            }
            if !failed_hard && s.class() == CodeClass::Success {
                if let Some(ov) = &s.out_v {
                    for (i, state) in proj::states(ov).iter().enumerate() {
                        if matches!(state, St::Ap(_) | St::CallExec { kind: "stream", .. }) {
                            st.inc("stream_value_entries_in_output", 1);
                            if !seen_pos.contains_key(&(i as u32)) {
                                st.violation("C13", "append-missing-from-stream", &format!("step {} at {}: the output trace has a stream value entry at position {i} that was never put into a stream in this run", s.idx, w.peers[s.peer].name), case, ctx());
                            }
                        }
                    }
                }
            }
            // (2) a canon snapshot is exactly the stream as appended so far, in the peer's order
            for snap in &m.snapshots {
                st.inc("canon_snapshots_checked", 1);
                let inst = &m.instances[snap.instance];
                let so_far = &inst.adds[..snap.adds_before];
                if snap.name.starts_with('$') {
                    let expected: Vec<String> = streams::exposed_order(so_far).iter().map(|a| a.value.clone()).collect();
                    if expected != snap.values {
                        let sig = if expected.len() != snap.values.len() { "stream-content-count" } else { "stream-content-order" };
                        st.violation("C13", sig, &format!("step {} at {}: {} as seen by canon holds {:?} but the appends replayed/performed so far are {:?}", s.idx, w.peers[s.peer].name, snap.name, snap.values.iter().map(|v| proj::trunc(v, 30)).collect::<Vec<_>>(), expected.iter().map(|v| proj::trunc(v, 30)).collect::<Vec<_>>()), case, ctx());
                    }
                    if expected.len() >= 2 {
                        st.seen("nontrivial_observations", crate::rng::fnv(format!("{}|{}|{:?}", w.air, s.idx, snap.values).as_bytes()));
                    }
                } else {
                    // stream maps: every snapshot entry comes from an append (key/value pairs may be deduplicated)
                    let appended: Vec<serde_json::Value> = so_far.iter().filter_map(|a| serde_json::from_str::<serde_json::Value>(&a.value).ok()).collect();
                    let mut n_members = 0usize;
                    for v in &snap.values {
                        let parsed = serde_json::from_str::<serde_json::Value>(v).unwrap_or(serde_json::Value::Null);
                        // canon into a canon map: {"key":..,"value":..} entries; canon into a scalar: one object key -> value
                        let members: Vec<serde_json::Value> = match (parsed.get("key"), parsed.get("value")) {
                            (Some(_), Some(val)) if parsed.as_object().map(|o| o.len() == 2).unwrap_or(false) => vec![val.clone()],
                            _ => parsed.as_object().map(|o| o.values().cloned().collect()).unwrap_or_else(|| vec![parsed.clone()]),
                        };
                        n_members += members.len();
                        for val in members {
                            if !appended.contains(&val) {
                                st.violation("C13", "map-content-not-appended", &format!("step {} at {}: {} as seen by canon holds {} which was never appended", s.idx, w.peers[s.peer].name, snap.name, proj::trunc(&val.to_string(), 60)), case, ctx());
                            }
                        }
                    }
                    // entries are counted as key/value members: a canon into a scalar reports ONE object
                    // holding all of them (an empty map is the single value {}), a canon into a canon
                    // map reports one {"key","value"} entry per member
                    if n_members > so_far.len() {
                        st.violation("C13", "map-content-count", &format!("step {}: {} holds {} entries but only {} appends happened", s.idx, snap.name, n_members, so_far.len()), case, ctx());
                    }
                    if n_members >= 2 {
                        st.seen("nontrivial_observations", crate::rng::fnv(format!("{}|{}|{:?}", w.air, s.idx, snap.values).as_bytes()));
                    }
                }
            }
            // (3) stream folds visit every value exactly once, including values appended while they run
            for f in &m.folds {
                let Some(iid) = f.instance else { continue };
                st.inc("stream_folds_checked", 1);
                let mut seen: BTreeSet<u32> = BTreeSet::new();
                for (pos, _) in &f.visited {
                    st.inc("fold_iterations_observed", 1);
                    if !seen.insert(*pos) {
                        st.violation("C13", "fold-visits-value-twice", &format!("step {} at {}: fold over {} visited the value at trace position {pos} twice", s.idx, w.peers[s.peer].name, f.name), case, ctx());
                    }
                }
                if !f.ended || failed_hard {
                    continue;
                }
                let inst = &m.instances[iid];
                let appended: Vec<&streams::Add> = inst.adds[..f.adds_at_end].iter().collect();
                if f.name.starts_with('$') {
                    // A fold walks the values of one generation in order and goes on to the next value
                    // only when the body reached `next` (a body waiting for a call result or for data
                    // stops there), but it always starts every generation. So, in one run: the values
                    // visited in a generation are a prefix of it, and the first value of every
                    // generation that exists when the fold ends is visited. Generations of replayed
                    // values are known exactly; of the values produced in this run, the first one ever
                    // and the first one appended after the fold started open a generation.
                    let mut slices: BTreeMap<(u8, u64), Vec<&streams::Add>> = BTreeMap::new();
                    for a in &appended {
                        if !matches!(a.src, Src::New) {
                            slices.entry(a.src.rank()).or_default().push(a);
                        }
                    }
                    let news: Vec<&&streams::Add> = appended.iter().filter(|a| matches!(a.src, Src::New)).collect();
                    let mut must_visit: Vec<(&streams::Add, &str)> = vec![];
                    for (_, sl) in &slices {
                        must_visit.push((sl[0], "replayed"));
                        let mut gap = false;
                        for a in sl {
                            let vis = seen.contains(&a.trace_pos);
                            if vis && gap {
                                st.violation("C13", "fold-skips-inside-generation", &format!("step {} at {}: fold over {} visited the value at trace position {} but skipped an earlier value of the same generation", s.idx, w.peers[s.peer].name, f.name, a.trace_pos), case, ctx());
                            }
                            if !vis {
                                gap = true;
                            }
                        }
                    }
                    if let Some(first_new) = news.first() {
                        must_visit.push((first_new, "new"));
                    }
                    let fold_start_seq = f.start_seq;
                    if let Some(first_during) = news.iter().find(|a| a.seq > fold_start_seq) {
                        must_visit.push((first_during, "appended-while-folding"));
                        st.inc("folds_with_values_appended_while_running", 1);
                    }
                    for (a, kind) in must_visit {
                        if !seen.contains(&a.trace_pos) {
                            st.violation("C13", &format!("fold-misses-value@{kind}"), &format!("step {} at {}: fold over {} ended without visiting the {kind} value {} at trace position {} although it opens a generation", s.idx, w.peers[s.peer].name, f.name, proj::trunc(&a.value, 40), a.trace_pos), case, ctx());
                        }
                    }
                    for (pos, _) in &f.visited {
                        if !appended.iter().any(|a| a.trace_pos == *pos) {
                            st.violation("C13", "fold-visits-foreign-value", &format!("step {}: fold over {} visited trace position {pos} which is not a value of that stream", s.idx, f.name), case, ctx());
                        }
                    }
                    if f.visited.len() >= 2 {
                        st.seen("nontrivial_observations", crate::rng::fnv(format!("{}|{}|f{}|{:?}", w.air, s.idx, f.fold_id, f.visited).as_bytes()));
                    }
                } else {
                    for (pos, _) in &f.visited {
                        if !appended.iter().any(|a| a.trace_pos == *pos) {
                            st.violation("C13", "fold-visits-foreign-value", &format!("step {}: fold over {} visited trace position {pos} which is not an entry of that map", s.idx, f.name), case, ctx());
                        }
                    }
                }
            }
        }
    });
    Report {
        prop: "C13",
        level: "exploration",
        stats,
        evaluations_key: "runs_with_stream_events",
        nontrivial_key: "nontrivial_observations",
        rule: "every run of generated honest histories with streams and stream maps appended from several peers, recursive stream folds and canon as observation point; an event sink compiled into the interpreter (cfg aquavm_verif) reports every value put into a stream, every canon snapshot and every value visited by a stream fold. Checked per run: no trace position is put into a stream twice and every stream value entry of the output trace was put into a stream; a canon snapshot of a stream equals the appends replayed or performed so far in the peer's order (previous, current, new generations); a stream fold never visits a value twice, visits inside one generation a prefix of its values, and when it ends it has visited the first value of every replayed generation, the first value produced in the run and the first value appended while it ran. Non-trivial = snapshots/folds with at least two values; distinct by content".into(),
        assumptions: vec![
            "stream maps deduplicate key/value pairs, so for maps only inclusion and counts are checked".into(),
            "runs ending in an uncatchable error (stream size limit) are exempt from the completeness clauses".into(),
        ],
    }
}
