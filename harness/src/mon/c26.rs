//! C26: the interpreter's JSON value type (JValue) is faithful to JSON: differential against serde_json::Value.
use super::c25::{gen_number, gen_value, mutate, nontrivial, panic_report, to_serde, Tw, G, KEYS};
use crate::invoke::guarded;
use crate::report::*;
use crate::rng::{fnv, Rng};
use air_interpreter_value::JValue;
use serde_json::{json, Value};

const BATCH: u64 = 500;

struct Ctx<'a> {
    st: &'a mut Stats,
    case: u64,
}

impl Ctx<'_> {
    fn bad(&mut self, sig: &str, input: &str, got: String, want: String) {
        let what = format!("{sig}: input {input}: JValue gives {got}, serde_json gives {want}");
        self.st.violation("C26", sig, &what, self.case, json!({"input": input, "jvalue": got, "serde_json": want}));
    }
    /// run one group of calls under the panic guard
    fn guard(&mut self, input: &str, f: impl FnOnce(&mut Ctx)) {
        if let Err((loc, msg)) = guarded(|| f(self)) {
            panic_report(self.st, "C26", self.case, &loc, &msg, input);
        }
    }
}

fn jt(v: Option<&JValue>) -> String {
    v.map_or("<none>".into(), |x| x.to_string())
}
fn vt(v: Option<&Value>) -> String {
    v.map_or("<none>".into(), |x| x.to_string())
}

/// Strict sameness of an interpreter value and a reference value: conversion, printed text and back-conversion all agree
/// (printed text distinguishes 1 / 1.0 and 0.0 / -0.0, which `==` of serde_json does not).
fn same(j: &JValue, v: &Value) -> bool {
    *j == JValue::from(v) && j.to_string() == v.to_string() && serde_json::to_value(j).ok().as_ref() == Some(v)
}

// (1) conversions round-trip, (2) printing agrees
fn convert_and_print(c: &mut Ctx, sv: &Value, key: &str) {
    let jv = JValue::from(sv.clone());
    let back = serde_json::to_value(&jv).map_err(|e| e.to_string());
    if back.as_ref() != Ok(sv) || back.as_ref().map(|b| b.to_string()).ok().as_deref() != Some(key) {
        c.bad("roundtrip-differs@from-serde-to-value", key, format!("{back:?}"), key.into());
    }
    if jv != JValue::from(sv) {
        c.bad("convert-differs@from-ref-vs-from-owned", key, JValue::from(sv).to_string(), jv.to_string());
    }
    match serde_json::from_value::<JValue>(sv.clone()) {
        Ok(j) if j == jv && j.to_string() == key => {}
        other => c.bad("convert-differs@from_value", key, format!("{other:?}"), key.into()),
    }
    let texts = [
        ("display", jv.to_string(), key.to_string()),
        ("to_string", serde_json::to_string(&jv).unwrap_or_else(|e| format!("error: {e}")), key.to_string()),
        ("to_vec", String::from_utf8_lossy(&serde_json::to_vec(&jv).unwrap_or_default()).into_owned(), key.to_string()),
        ("display-pretty", format!("{jv:#}"), serde_json::to_string_pretty(sv).unwrap_or_default()),
        ("to_string_pretty", serde_json::to_string_pretty(&jv).unwrap_or_else(|e| format!("error: {e}")), serde_json::to_string_pretty(sv).unwrap_or_default()),
    ];
    for (how, got, want) in texts {
        if got == want {
            continue;
        }
        // texts may legitimately differ in key order only (map types with different orders): compare what they parse back to
        match serde_json::from_str::<Value>(&got) {
            Ok(p) if p == *sv && p.to_string() == key => c.st.inc("info_printed_text_differs_but_reads_back_equal", 1),
            _ => c.bad(&format!("print-differs@{how}"), key, got, want),
        }
    }
    let _ = format!("{jv:?}");
    match serde_json::from_str::<JValue>(&format!("{jv:#}")) {
        Ok(p) if p == jv && p.to_string() == jv.to_string() => {}
        // a float that does not survive text (serde_json without float_roundtrip) is not the value type's fault: ask the reference
        other => match serde_json::from_str::<Value>(&serde_json::to_string_pretty(sv).unwrap_or_default()) {
            Ok(p) if p.to_string() != key => c.st.inc("info_float_does_not_survive_text_in_reference_either", 1),
            _ => c.bad("pretty-does-not-read-back", key, format!("{other:?}"), key.into()),
        },
    }
}

// (3) parsing the same text / bytes with both types
fn parse_case(c: &mut Ctx, text: &[u8], deep: bool) {
    c.st.inc("cases_judged", 1);
    c.st.inc("texts_parsed", 1);
    let shown = String::from_utf8_lossy(text).into_owned();
    let shown = if shown.len() > 300 { format!("{}.. ({} bytes)", crate::proj::trunc(&shown, 300), text.len()) } else { shown };
    let mut judge = |how: &str, a: Result<JValue, serde_json::Error>, b: Result<Value, serde_json::Error>| match (a, b) {
        (Ok(j), Ok(v)) => {
            c.st.inc("parse_both_accept", 1);
            if !same(&j, &v) {
                c.bad(&format!("parse-value-differs@{how}"), &shown, j.to_string(), v.to_string());
            }
        }
        (Err(a), Err(b)) => {
            c.st.inc("parse_both_reject", 1);
            c.st.label("rejection_categories", &format!("{:?}", b.classify()));
            if a.to_string() != b.to_string() {
                c.st.inc("info_error_text_differs", 1);
            }
        }
        (a, b) if deep => {
            let _ = (a, b);
            c.st.inc("info_deep_nesting_disagreement", 1)
        }
        (a, b) => {
            let verb = if a.is_ok() { "jvalue-accepts" } else { "jvalue-rejects" };
            c.bad(&format!("parse-disagrees@{how}-{verb}"), &shown, format!("{:?}", a.map(|x| x.to_string())), format!("{:?}", b.map(|x| x.to_string())));
        }
    };
    judge("from_slice", serde_json::from_slice::<JValue>(text), serde_json::from_slice::<Value>(text));
    if let Ok(s) = std::str::from_utf8(text) {
        judge("from_str", serde_json::from_str::<JValue>(s), serde_json::from_str::<Value>(s));
    } else {
        c.st.inc("texts_not_utf8", 1);
    }
}

const TOKENS: &[&str] = &[
    ",", ":", "{", "}", "[", "]", "\"", "\\", "0", "-", ".", "e", "E5", "+", "null", "tru", "\\ud800", "\\udc00", "\\ud83d\\ude00", "\\ud83d\\u0041", "\\ud83dx", "\\u12", "\\x",
    "\u{1}", "\t", "\n", "\u{feff}", "1e400", "-1e400", "1e-400", "NaN", "Infinity", "-0", "00", "1.", ".5", "0x10", "18446744073709551616", "-9223372036854775809",
    "123456789012345678901234567890", "0.1234567890123456789012345678901234567890", "1E+2", "/*c*/", "//", "'a'", " ", "\"a\":", "\u{0}",
];

fn mutate_text(text: &str, r: &mut Rng) -> Vec<u8> {
    let mut b = text.as_bytes().to_vec();
    for _ in 0..r.range(1, 2) {
        let (pos, any, last) = (r.below(b.len() + 1), r.next_u64() as u8, b.len().saturating_sub(1));
        match r.below(6) {
            0 if !b.is_empty() => drop(b.drain(pos.min(last)..(pos + r.range(1, 3)).min(b.len()))),
            1 | 2 => drop(b.splice(pos..pos, r.pick(TOKENS).bytes())),
            3 => b.truncate(pos),
            4 if !b.is_empty() => b[pos.min(last)] = *r.pick(&[0xff, 0x80, 0xc0, 0xed, 0x00, b'"', b'\\', b'0', b' ', any]),
            _ => b.extend_from_slice(r.pick(&["x", " 1", ",", "]", "}", "\0", " "]).as_bytes()),
        }
    }
    b
}

fn number_text(r: &mut Rng) -> String {
    let digits = |r: &mut Rng, n: usize| (0..n).map(|_| (b'0' + r.below(10) as u8) as char).collect::<String>();
    let mut t = r.pick(&["", "", "", "-", "-", "+"]).to_string();
    match r.below(12) {
        0 => t.push('0'),
        1 => t.push_str("00"),
        2 => {}
        _ => {
            t.push((b'1' + r.below(9) as u8) as char);
            let n = *r.pick(&[0, 1, 5, 15, 17, 18, 19, 20, 25, 40]);
            t.push_str(&digits(r, n));
        }
    }
    match r.below(10) {
        0..=3 => {}
        4 => t.push('.'),
        _ => {
            let n = *r.pick(&[1, 2, 10, 17, 25, 50]);
            t.push_str(&format!(".{}", digits(r, n)));
        }
    }
    match r.below(10) {
        0..=4 => {}
        5 => t.push('e'),
        _ => {
            let n = r.range(1, 4);
            t.push_str(&format!("{}{}{}", r.pick(&["e", "E"]), r.pick(&["", "+", "-"]), digits(r, n)));
        }
    }
    match r.below(4) {
        0 => format!("[{t}]"),
        1 => format!("{{\"a\":{t}}}"),
        _ => t,
    }
}

/// Texts every run judges once (case index 0); the flag marks nesting deeper than 64.
fn directed_texts() -> Vec<(String, bool)> {
    let mut out: Vec<(String, bool)> = [
        // numbers
        "9223372036854775807", "9223372036854775808", "-9223372036854775808", "-9223372036854775809", "18446744073709551615", "18446744073709551616", "0", "-0", "0.0",
        "-0.0", "1e308", "1.7976931348623157e308", "1.7976931348623159e308", "1e309", "1e400", "-1e400", "5e-324", "4.9e-324", "2e-324", "1e-400", "1E400", "0e999999999",
        "1e-999999999", "1e+2", "1e99999999999999999999", "0.1e1", "3.14159265358979323846264338327950288419716939937510", "123456789012345678901234567890",
        "0.000000000000000000000000000000000000000000001", "-", "+1", "01", "1.", ".1", "1e", "1e+", "0x1", "NaN", "Infinity", "-Infinity", "1_000", "[1e400]", "{\"a\":1e400}",
        // strings
        "\"\\ud83d\\ude00\"", "\"\\uD83D\\uDE00\"", "\"\\ud83d\"", "\"\\ude00\"", "\"\\ud83d\\ud83d\"", "\"\\ud83dabc\"", "\"\\ud83d\\n\"", "\"\\ude00\\ud83d\"", "\"\\u0000\"", "\"\u{0}\"",
        "\"\n\"", "\"\t\"", "\"\u{1f}\"", "\"\u{7f}\"", "\"\\/\"", "\"\\a\"", "\"\\u00\"", "\"\\uzzzz\"", "\"abc", "\"\\\"", "\"\u{1f600}\"", "\"\u{feff}\"", "\u{feff}1", "'a'",
        "{\"\\ud83d\\ude00\":1}", "{\"\\ud800\":1}",
        // duplicate keys
        "{\"a\":1,\"a\":2}", "{\"a\":1,\"b\":2,\"a\":3}", "{\"a\":{\"x\":1},\"a\":{\"y\":2}}", "{\"a\":1,\"\\u0061\":2}", "{\"\":1,\"\":2}", "{\"a\":2,\"a\":1,\"a\":[]}",
        // structure
        "", " ", "[]", "{}", "[ ]", "{ }", "[[]]", "[{}]", "{\"a\":[]}", "{\"a\":{}}", "[,]", "[1,]", "{,}", "{\"a\":1,}", "{\"a\"}", "{\"a\":}", "{a:1}", "{1:1}", "{\"a\":1 \"b\":2}",
        "[1 2]", "null", "nul", "true", "false", "True", "nullx", "null null", "[] []", "1 2", "// c\n1", "/* */1", "[1,2", "{\"a\":1", "]", "}", "\u{0}", "[\"a\",]",
    ]
    .iter()
    .map(|s| (s.to_string(), false))
    .collect();
    out.push((format!("1{}", "0".repeat(400)), false));
    out.push((format!("0.{}1", "0".repeat(400)), false));
    out.push((format!("1{}e-400", "0".repeat(400)), false));
    for n in [1usize, 2, 32, 64, 65, 100, 126, 127, 128, 129, 130, 200, 1000] {
        out.push((format!("{}{}", "[".repeat(n), "]".repeat(n)), n > 64));
        out.push((format!("{}1{}", "{\"a\":".repeat(n), "}".repeat(n)), n > 64));
        out.push((format!("{}{}", "[{\"k\":".repeat(n / 2 + 1), "}]".repeat(n / 2 + 1)), n > 64));
        out.push((format!("{}1", "[".repeat(n)), n > 64));
    }
    out
}

// (4) equality
fn eq_pair(c: &mut Ctx, kind: &str, ja: &JValue, sa: &Value, jb: &JValue, sb: &Value) {
    c.st.inc("cases_judged", 1);
    c.st.inc(&format!("eq_pairs[{kind}]"), 1);
    let (got, want) = ((ja == jb, jb == ja, ja != jb), (sa == sb, sb == sa, sa != sb));
    c.st.inc(if want.0 { "eq_pairs_equal" } else { "eq_pairs_unequal" }, 1);
    if got != want {
        c.bad(&format!("eq-differs@{kind}"), &format!("{sa} vs {sb}"), format!("{got:?}"), format!("{want:?}"));
    }
}

fn rebuild_reversed(v: &Value) -> JValue {
    match v {
        Value::Array(a) => JValue::array_from_iter(a.iter().map(rebuild_reversed)),
        Value::Object(o) => JValue::object_from_pairs(o.iter().rev().map(|(k, v)| (k.as_str(), rebuild_reversed(v)))),
        other => JValue::from(other),
    }
}

fn eq_primitives(c: &mut Ctx, jn: &JValue, sn: &Value, r: &mut Rng) {
    let shown = sn.to_string();
    let i = sn.as_i64().filter(|_| r.chance(2, 3)).unwrap_or(*r.pick(&[0, 1, -1, i64::MIN, i64::MAX, 42]));
    let u = sn.as_u64().filter(|_| r.chance(2, 3)).unwrap_or(*r.pick(&[0, 1, u64::MAX, 1 << 63, 42]));
    let f = sn.as_f64().filter(|_| r.chance(2, 3)).unwrap_or(*r.pick(&[0.0, -0.0, 1.0, 0.1, 1e308, f64::NAN, f64::INFINITY, 9007199254740993.0]));
    let b = sn.as_bool().unwrap_or(r.chance(1, 2));
    let s: String = sn.as_str().filter(|_| r.chance(2, 3)).map_or(r.pick(&["", "a", "null", "1"]).to_string(), |x| x.to_string());
    macro_rules! prim {
        ($($name:literal: $x:expr),*) => {$({
            let (got, want) = ((*jn == $x, $x == *jn), (*sn == $x, $x == *sn));
            c.st.inc("primitive_comparisons", 1);
            if want.0 { c.st.inc("primitive_comparisons_equal", 1); }
            if got != want {
                c.bad(concat!("eq-primitive-differs@", $name), &format!("{shown} == {:?}", $x), format!("{got:?}"), format!("{want:?}"));
            }
        })*};
    }
    prim!("i64": i, "u64": u, "f64": f, "bool": b, "&str": s.as_str(), "String": s.clone(), "i32": i as i32, "i8": i as i8, "isize": i as isize, "u32": u as u32, "u8": u as u8, "usize": u as usize);
    // f32: the source says "NB: is not same as the original version" (widening the f32 instead of narrowing the number): documented deviation, counted only
    let (got, want) = (*jn == f as f32, *sn == f as f32);
    c.st.inc(if got == want { "info_f32_comparison_agrees" } else { "info_f32_comparison_differs_from_serde_json" }, 1);
}

// (5) accessors along a random path
fn summary_j(v: &JValue) -> String {
    let kinds = (v.is_null(), v.is_boolean(), v.is_number(), v.is_string(), v.is_array(), v.is_object(), v.is_i64(), v.is_u64(), v.is_f64());
    let vals = (v.as_null(), v.as_bool(), v.as_i64(), v.as_u64(), v.as_f64().map(f64::to_bits), v.as_str().map(|s| s.to_string()), v.as_number().map(|n| n.to_string()));
    let parts = (v.as_array().map(|a| a.len()), v.as_object().map(|m| m.iter().map(|(k, v)| format!("{k}={v}")).collect::<Vec<_>>()));
    format!("{kinds:?} {vals:?} {parts:?}")
}
fn summary_v(v: &Value) -> String {
    let kinds = (v.is_null(), v.is_boolean(), v.is_number(), v.is_string(), v.is_array(), v.is_object(), v.is_i64(), v.is_u64(), v.is_f64());
    let vals = (v.as_null(), v.as_bool(), v.as_i64(), v.as_u64(), v.as_f64().map(f64::to_bits), v.as_str().map(|s| s.to_string()), v.as_number().map(|n| n.to_string()));
    let parts = (v.as_array().map(|a| a.len()), v.as_object().map(|m| m.iter().map(|(k, v)| format!("{k}={v}")).collect::<Vec<_>>()));
    format!("{kinds:?} {vals:?} {parts:?}")
}

fn accessors(c: &mut Ctx, jv: &JValue, sv: &Value, r: &mut Rng, key: &str) {
    let (mut j, mut s) = (Some(jv), Some(sv));
    let mut ptr = String::new();
    let cmp = |c: &mut Ctx, how: &str, at: &str, got: String, want: String| {
        c.st.inc("accessor_comparisons", 1);
        if got != want {
            c.bad(&format!("accessor-differs@{how}"), &format!("{key} at {at:?}"), got, want);
        }
    };
    for _ in 0..6 {
        let (Some(jn), Some(sn)) = (j, s) else { break };
        cmp(c, "is-as", &ptr, summary_j(jn), summary_v(sn));
        if r.chance(1, 3) {
            eq_primitives(c, jn, sn, r);
        }
        let by_key = match sn {
            Value::Object(o) if !o.is_empty() && r.chance(4, 5) => Some(o.keys().nth(r.below(o.len())).cloned().unwrap_or_default()),
            Value::Array(_) if r.chance(4, 5) => None,
            _ if r.chance(1, 2) => Some(r.pick(KEYS).to_string()),
            _ => None,
        };
        match by_key {
            Some(k) => {
                cmp(c, "get-str", &k, jt(jn.get(k.as_str())), vt(sn.get(k.as_str())));
                cmp(c, "get-string", &k, jt(jn.get(&k)), vt(sn.get(&k)));
                cmp(c, "index-str", &k, jn[k.as_str()].to_string(), sn[k.as_str()].to_string());
                ptr.push_str(&format!("/{}", k.replace('~', "~0").replace('/', "~1")));
                (j, s) = (jn.get(k.as_str()), sn.get(k.as_str()));
            }
            None => {
                let i = r.below(sn.as_array().map_or(2, |a| a.len() + 1));
                cmp(c, "get-usize", &i.to_string(), jt(jn.get(i)), vt(sn.get(i)));
                cmp(c, "index-usize", &i.to_string(), jn[i].to_string(), sn[i].to_string());
                ptr.push_str(&format!("/{i}"));
                (j, s) = (jn.get(i), sn.get(i));
            }
        }
        cmp(c, "pointer", &ptr, jt(jv.pointer(&ptr)), vt(sv.pointer(&ptr)));
    }
    for _ in 0..2 {
        let odd = match r.below(4) {
            0 => r.pick(&["", "/", "//", "a", "/01", "/+1", "/-", "/~", "/~2", "/~01", "/~10", "/0/", "/18446744073709551616", "/ 1", "/1 ", "/00", "/-0", "/\u{0}"]).to_string(),
            1 => format!("{ptr}/"),
            2 => format!("{ptr}{}", r.pick(&["/0", "/1", "/a", "/~0", "/~1", "/01"])),
            _ => ptr.trim_start_matches('/').to_string(),
        };
        cmp(c, "pointer", &odd, jt(jv.pointer(&odd)), vt(sv.pointer(&odd)));
    }
}

fn value_case(g: &G, r: &mut Rng, case: u64, st: &mut Stats) {
    let sv = to_serde(g);
    let key = sv.to_string();
    st.inc("cases_judged", 1);
    st.inc("values", 1);
    st.seen("distinct_values", fnv(key.as_bytes()));
    if nontrivial(g) {
        st.seen("nontrivial_values", fnv(key.as_bytes()));
        st.sample(json!({"value": key, "checks": "convert/print/parse/equality/accessors vs serde_json::Value"}));
    }
    let mut c = Ctx { st, case };
    c.guard(&key, |c| convert_and_print(c, &sv, &key));
    // texts: the value spelled differently (valid JSON: both must accept), a damaged spelling, a number spelling
    let varied = Tw::varied(g, r);
    let texts = [varied.clone().into_bytes(), mutate_text(&varied, r), number_text(r).into_bytes()];
    if serde_json::from_str::<Value>(&varied).is_err() && c.st.inconclusive.len() < 5 {
        c.st.inconclusive.push(format!("harness text writer produced text the reference rejects: {varied:?}"));
    }
    for t in &texts {
        c.guard(&String::from_utf8_lossy(t), |c| parse_case(c, t, false));
    }
    c.guard(&key, |c| {
        let jv = JValue::from(&sv);
        let (g2, kind) = mutate(g, r);
        let sb = to_serde(&g2);
        eq_pair(c, kind, &jv, &sv, &JValue::from(&sb), &sb);
        eq_pair(c, "rebuilt-in-reverse-key-order", &jv, &sv, &rebuild_reversed(&sv), &sv);
        if let (Ok(jp), Ok(sp)) = (serde_json::from_str::<JValue>(&key), serde_json::from_str::<Value>(&key)) {
            eq_pair(c, "reparsed-from-own-text", &jv, &sv, &jp, &sp);
        }
        let other = Value::Number(gen_number(r));
        eq_pair(c, "against-a-number", &jv, &sv, &JValue::from(&other), &other);
        accessors(c, &jv, &sv, r, &key);
    });
}

fn directed_eq_pairs() -> Vec<(Value, Value)> {
    vec![
        (json!(1), json!(1.0)),
        (json!(0.0), json!(-0.0)),
        (json!(0), json!(0.0)),
        (json!(0), json!(-0.0)),
        (json!(u64::MAX), json!(u64::MAX as f64)),
        (json!(i64::MAX), json!(i64::MAX as u64)),
        (json!(-1), json!(u64::MAX)),
        (json!({"a": 1, "b": 2}), json!({"b": 2, "a": 1})),
        (json!({"a": 1}), json!({"a": 1, "b": null})),
        (json!([]), json!({})),
        (json!(null), json!("null")),
        (json!(""), json!(null)),
        (json!([1, 2]), json!([2, 1])),
        (json!("\u{e9}"), json!("e\u{301}")),
        (json!([0.0]), json!([-0.0])),
        (json!(5e-324), json!(0.0)),
    ]
}

fn self_tests(st: &mut Stats) {
    let v = |t: &str| serde_json::from_str::<Value>(t);
    let checks = [
        ("reference: last duplicate key wins", v(r#"{"a":1,"a":2}"#).ok() == Some(json!({"a": 2}))),
        ("reference: 1e400 is rejected", v("1e400").is_err()),
        ("reference: lone surrogate escape is rejected", v(r#""\ud800""#).is_err()),
        ("reference: recursion limit 128", v(&format!("{}{}", "[".repeat(128), "]".repeat(128))).is_err() && v(&format!("{}{}", "[".repeat(127), "]".repeat(127))).is_ok()),
        ("reference: -0 reads as a float", v("-0").map(|x| x.to_string()).ok().as_deref() == Some("-0.0")),
        ("harness: to_serde lets the last duplicate win", to_serde(&G::Obj(vec![("a".into(), G::Null), ("a".into(), G::Bool(true))])) == json!({"a": true})),
    ];
    for (name, ok) in checks {
        if !ok {
            st.inconclusive.push(format!("oracle self-test failed: {name}"));
        }
    }
}

pub fn run(cfg: &Cfg) -> Report {
    let n = cfg.scale(200, 10000);
    let mut stats = par_cases(cfg, n, |case, st| {
        let mut r = Rng::derive(cfg.seed, 26, case);
        if case == 0 {
            let mut c = Ctx { st: &mut *st, case };
            for (t, deep) in directed_texts() {
                c.guard(&crate::proj::trunc(&t, 200), |c| parse_case(c, t.as_bytes(), deep));
            }
            for (a, b) in directed_eq_pairs() {
                c.guard(&format!("{a} vs {b}"), |c| eq_pair(c, "directed", &JValue::from(&a), &a, &JValue::from(&b), &b));
            }
        }
        for _ in 0..BATCH {
            let g = gen_value(&mut r, 4, true);
            let mut vr = Rng::new(r.next_u64());
            value_case(&g, &mut vr, case, st);
        }
    });
    self_tests(&mut stats);
    let sorted = serde_json::from_str::<Value>(r#"{"b":1,"a":2}"#).map(|v| v.to_string()).ok().as_deref() == Some(r#"{"a":2,"b":1}"#);
    crate::sanitize::passes_for("C26", cfg, &mut stats);
    Report {
        prop: "C26",
        level: "exploration",
        stats,
        evaluations_key: "cases_judged",
        nontrivial_key: "nontrivial_values",
        rule: format!(
            "each case index generates {BATCH} JSON values (depth <= 4, duplicate keys allowed, boundary integers and floats, escaped / non-BMP strings and keys). Per value: From<serde_json::Value> and back (to_value, from_value) must be the identity incl. printed text; Display, {{:#}}, to_string, to_vec, to_string_pretty must equal serde_json's; three texts (the value re-spelled with shuffled keys / whitespace / \\u escapes / float spellings, a damaged copy of it, a generated number spelling) are parsed by from_slice and from_str into both types: both reject, or both accept the same value; four value pairs (mutated, rebuilt in reverse key order, reparsed, against a number) must compare like serde_json's ==; a random path is walked comparing is_*/as_*/get/Index/pointer (incl. odd pointers) and == against i64/u64/f64/bool/&str/String/narrower ints. Case 0 also judges ~190 directed texts (number boundaries, surrogates, control characters, duplicate keys, malformed structure, nesting 1..1000) and 16 directed pairs. evaluations = values + texts + value pairs judged; non-trivial = the value has an object with >= 2 keys, a float or integer outside i32, or an escaped/non-ASCII string; distinct by fnv of the reference's compact text"
        ),
        assumptions: vec![
            format!("serde_json::Value (serde_json 1.0.108, {} preserve_order) is the reference for JSON semantics; the interpreter's Map is a BTreeMap, so both print keys in byte order and printed texts are compared directly (on a difference the texts are read back and compared as values before flagging)", if sorted { "without" } else { "WITH" }),
            "\"the same value\" is judged strictly: equal under ==, equal printed text (tells 1 from 1.0 and 0.0 from -0.0) and equal after conversion back".into(),
            "disagreement on texts nested deeper than 64 would be counted, not flagged (the statement bounds the size); == against f32 is counted only (the source documents a deliberate deviation from serde_json)".into(),
            "error messages of rejected texts are compared for information only".into(),
        ],
    }
}
