//! C27: interpreter data, envelopes, call-request maps and call-result maps decode to exactly what
//! was encoded; the versions of an envelope stay readable when its inner data is not; a call
//! payload tagged with a codec other than msgpack (0x0201) is rejected, never misread.
//!
//! Expectations never come from the code under test: a round trip is compared with the value that
//! was put in, wire bytes are re-read with plain `rmp_serde` structs written here, and codec tags
//! are classified by a hand-written unsigned-varint reader (multiformats rules: 7 bits per byte,
//! at most 9 bytes).
use super::c20::sort_value;
use super::honest::*;
use crate::invoke::*;
use crate::proj;
use crate::report::*;
use crate::rng::{fnv, Rng};
use crate::sim::Step;
use crate::tamper::mutate_bytes;
use air_interpreter_data::{InterpreterData, InterpreterDataEnvelope, Versions};
use air_interpreter_interface as ii;
use air_interpreter_sede::{FromSerialized, ToSerialized};
use base64::Engine;
use polyplets::SecurityTetraplet;
use serde_json::{json, Map, Value};
use std::borrow::Cow;
use std::collections::{BTreeMap, HashMap};
use std::rc::Rc;

const P: &str = "C27";
/// multicodec number of msgpack, the only codec call payloads may carry (interpreter-sede/src/rmp_serde.rs)
const MSGPACK: u64 = 0x0201;
/// `varint(0x0201)`
const RIGHT_PREFIX: [u8; 2] = [0x81, 0x04];
const U32S: [u32; 12] = [0, 1, 2, 127, 128, 255, 256, 65535, 65536, 0x7fff_ffff, u32::MAX - 1, u32::MAX];

fn b64(b: &[u8]) -> String {
    base64::engine::general_purpose::STANDARD.encode(&b[..b.len().min(6000)])
}

/// One judged round trip / decode attempt; `nontrivial` = the payload is a non-empty structure.
fn judged(st: &mut Stats, kind: &str, bytes: &[u8], nontrivial: bool) {
    st.inc("evaluations", 1);
    st.inc(&format!("evaluations[{kind}]"), 1);
    if nontrivial {
        st.seen("nontrivial", fnv(bytes));
        st.seen(&format!("nontrivial[{kind}]"), fnv(bytes));
    }
}

/// Run repository code under the panic guard; a panic is a violation `panic@file:line`.
fn g<T>(st: &mut Stats, case: u64, what: &str, input: &[u8], f: impl FnOnce() -> T) -> Option<T> {
    match guarded(f) {
        Ok(v) => Some(v),
        Err((loc, msg)) => {
            st.violation(P, &format!("panic@{loc}"), &format!("{what} panicked: {msg}"), case, json!({"what": what, "input_b64": b64(input)}));
            None
        }
    }
}

/// exact text of a JSON value: sorted keys, integers as integers, floats by their shortest exact form (-0.0 != 0.0)
fn txt(v: &Value) -> String {
    serde_json::to_string(&sort_value(v)).unwrap_or_default()
}

// ---------------------------------------------------------------- generators

fn gstr(rng: &mut Rng) -> String {
    match rng.below(9) {
        0 => String::new(),
        1 => "a".into(),
        2 => "srv-id_0".into(),
        3 => "üñíçødé ✓ 日本語 🦀".into(),
        4 => "x".repeat(if rng.chance(1, 8) { *rng.pick(&[5000usize, 65535, 65536]) } else { *rng.pick(&[31usize, 32, 255, 256]) }),
        5 => "\0\u{1}\"\\\n\t\u{7f}".into(),
        6 => "\u{10FFFF}\u{FEFF}\u{202E}é".repeat(rng.range(1, 40)),
        7 => "12D3KooWHk9BjDQBUqnavciRPhAYFvqKBe4ZiPPvde7vDaqgn5er".into(),
        _ => (0..rng.range(1, 12)).map(|_| (b'a' + rng.below(26) as u8) as char).collect(),
    }
}

fn gjson(rng: &mut Rng, depth: usize) -> Value {
    match rng.below(if depth == 0 { 9 } else { 12 }) {
        0 => Value::Null,
        1 => json!(rng.chance(1, 2)),
        // integers around every msgpack width
        2 => json!(*rng.pick(&[0i64, 1, -1, 127, 128, 255, 256, 65535, 65536, -32, -33, -128, -129, -32768, -32769, i32::MIN as i64, i32::MAX as i64, u32::MAX as i64, 1 << 53, i64::MIN, i64::MAX])),
        3 => {
            let r = rng.next_u64();
            json!(*rng.pick(&[u64::MAX, i64::MAX as u64 + 1, u32::MAX as u64 + 1, r]))
        }
        4 => {
            let r = f64::from_bits(rng.next_u64());
            let f = *rng.pick(&[0.0f64, -0.0, 1.0, -1.5, 0.1, f64::MAX, f64::MIN, f64::MIN_POSITIVE, 5e-324, 1e300, 9007199254740993.0, f32::MAX as f64, 16777217.0, r]);
            json!(if f.is_finite() { f } else { 0.5 })
        }
        5 | 6 => json!(gstr(rng)),
        7 => json!([]),
        8 => json!({}),
        9 | 10 => Value::Array((0..rng.range(1, 5)).map(|_| gjson(rng, depth - 1)).collect()),
        _ => Value::Object((0..rng.range(1, 5)).map(|_| (gstr(rng), gjson(rng, depth - 1))).collect()),
    }
}

fn gu32(rng: &mut Rng) -> Value {
    json!(if rng.chance(1, 4) { rng.next_u64() as u32 } else { *rng.pick(&U32S) })
}

fn gcid(rng: &mut Rng) -> String {
    match rng.below(4) {
        0 => format!("bagaaihra{}", bs58::encode(rng.bytes(20)).into_string().to_lowercase()),
        1 => gstr(rng),
        _ => format!("cid{}", rng.below(50)),
    }
}

fn gtetraplet(rng: &mut Rng) -> Value {
    json!({"peer_pk": gstr(rng), "service_id": gstr(rng), "function_name": gstr(rng), "lens": gstr(rng)})
}

fn gstate(rng: &mut Rng) -> Value {
    match rng.below(11) {
        0 => json!({"par": [gu32(rng), gu32(rng)]}),
        1 => json!({"call": {"sent_by": {"PeerId": gstr(rng)}}}),
        2 => json!({"call": {"sent_by": {"PeerIdWithCallId": {"peer_id": gstr(rng), "call_id": gu32(rng)}}}}),
        3 => json!({"call": {"executed": {"scalar": gcid(rng)}}}),
        4 => json!({"call": {"executed": {"stream": {"cid": gcid(rng), "generation": gu32(rng)}}}}),
        5 => json!({"call": {"executed": {"unused": gcid(rng)}}}),
        6 => json!({"call": {"failed": gcid(rng)}}),
        7 => {
            let lore: Vec<Value> = (0..rng.below(4)).map(|_| json!({"pos": gu32(rng), "desc": (0..rng.below(4)).map(|_| json!({"pos": gu32(rng), "len": gu32(rng)})).collect::<Vec<_>>()})).collect();
            json!({"fold": {"lore": lore}})
        }
        8 => json!({"ap": {"gens": (0..rng.below(4)).map(|_| gu32(rng)).collect::<Vec<_>>()}}),
        9 => json!({"canon": {"sent_by": gstr(rng)}}),
        _ => json!({"canon": {"executed": gcid(rng)}}),
    }
}

fn gstore(rng: &mut Rng, mut item: impl FnMut(&mut Rng) -> Value) -> Value {
    let n = *rng.pick(&[0usize, 0, 1, 2, 5, 40]);
    Value::Object((0..n).map(|_| (gcid(rng), item(rng))).collect())
}

/// `InterpreterData` JSON the histories never produce: boundary numbers, odd strings, long vectors, empty stores
fn gen_data(rng: &mut Rng) -> Value {
    let n = *rng.pick(&[0usize, 1, 3, 10, 60, 3000]);
    let trace: Vec<Value> = (0..n).map(|_| gstate(rng)).collect();
    let sigs: Map<String, Value> = (0..*rng.pick(&[0usize, 1, 3, 60]))
        .map(|_| {
            let (k, v) = (*rng.pick(&[0usize, 1, 32, 33]), *rng.pick(&[0usize, 64, 65]));
            (bs58::encode(rng.bytes(k)).into_string(), json!(bs58::encode(rng.bytes(v)).into_string()))
        })
        .collect();
    json!({
        "trace": trace, "lcid": gu32(rng),
        "cid_info": {
            "value_store": gstore(rng, |r| json!(if r.chance(1, 2) { gjson(r, 2).to_string() } else { gstr(r) })),
            "tetraplet_store": gstore(rng, gtetraplet),
            "canon_element_store": gstore(rng, |r| {
                let prov = match r.below(3) { 0 => json!({"type": "literal"}), 1 => json!({"type": "service_result", "cid": gcid(r)}), _ => json!({"type": "canon", "cid": gcid(r)}) };
                json!({"value": gcid(r), "tetraplet": gcid(r), "provenance": prov})
            }),
            "canon_result_store": gstore(rng, |r| json!({"tetraplet": gcid(r), "values": (0..*r.pick(&[0usize, 1, 3, 300])).map(|_| json!(gcid(r))).collect::<Vec<_>>()})),
            "service_result_store": gstore(rng, |r| json!({"value_cid": gcid(r), "argument_hash": gstr(r), "tetraplet_cid": gcid(r)})),
        },
        "signatures": sigs,
    })
}

/// Rewrite leaves of honest data JSON: boundary u32 in every numeric position, odd strings, long vectors.
fn mutate_leaves(rng: &mut Rng, v: &mut Value, key: &str) {
    match v {
        Value::Number(_) if rng.chance(1, 3) => *v = gu32(rng),
        Value::String(s) if key != "type" && rng.chance(1, 6) => *s = gstr(rng),
        Value::Array(a) => {
            a.iter_mut().for_each(|x| mutate_leaves(rng, x, key));
            if key != "par" && !a.is_empty() && rng.chance(1, 12) {
                let e = a[rng.below(a.len())].clone();
                a.extend((0..*rng.pick(&[1usize, 20, 700])).map(|_| e.clone()));
            }
        }
        Value::Object(m) => m.iter_mut().filter(|(k, _)| *k != "signatures").for_each(|(k, x)| mutate_leaves(rng, x, k)),
        _ => {}
    }
}

fn gen_requests(rng: &mut Rng) -> BTreeMap<u32, CallRequest> {
    let mut m = BTreeMap::new();
    for i in 0..rng.below(21) {
        let id = match rng.below(5) { 0 => 0, 1 => u32::MAX, 2 => i as u32 + 1, _ => rng.next_u64() as u32 };
        let args: Vec<Value> = (0..rng.below(5)).map(|_| gjson(rng, 3)).collect();
        let tetraplets = (0..if rng.chance(1, 6) { rng.below(4) } else { args.len() }).map(|_| (0..rng.below(3)).map(|_| (gstr(rng), gstr(rng), gstr(rng), gstr(rng))).collect()).collect();
        m.insert(id, CallRequest { service: gstr(rng), function: gstr(rng), args, tetraplets });
    }
    m
}

fn gen_results(rng: &mut Rng) -> BTreeMap<String, (i32, String)> {
    let mut m = BTreeMap::new();
    for i in 0..rng.below(21) {
        let key = match rng.below(6) { 0 => "0".into(), 1 => u32::MAX.to_string(), 2 => gstr(rng), 3 => format!("{}", u64::MAX), _ => format!("{}", i + 1) };
        let r = rng.next_u64() as i32;
        let code = *rng.pick(&[0, 1, -1, i32::MIN, i32::MAX, 10000, r]);
        m.insert(key, (code, if rng.chance(2, 3) { gjson(rng, 3).to_string() } else { gstr(rng) }));
    }
    m
}

// ---------------------------------------------------------------- 1. interpreter data and envelopes

/// The envelope as it is on the wire, read without the repository's types.
#[derive(serde::Deserialize)]
struct EnvWire {
    version: String,
    interpreter_version: String,
    #[serde(with = "serde_bytes")]
    inner_data: Vec<u8>,
}

fn dec_data(bytes: &[u8]) -> Result<(Versions, Vec<u8>, InterpreterData), String> {
    let env = InterpreterDataEnvelope::try_from_slice(bytes).map_err(|e| format!("envelope: {e}"))?;
    let d = InterpreterData::try_from_slice(&env.inner_data).map_err(|e| format!("inner data: {e}"))?;
    Ok((env.versions.clone(), env.inner_data.to_vec(), d))
}

fn enc_data(v: &Versions, d: &InterpreterData) -> Result<Vec<u8>, String> {
    let inner = d.serialize().map_err(|e| format!("inner data: {e}"))?;
    InterpreterDataEnvelope { versions: v.clone(), inner_data: Cow::Owned(inner) }.serialize().map_err(|e| format!("envelope: {e}"))
}

fn pj(d: &InterpreterData) -> Value {
    sort_value(&serde_json::to_value(d).unwrap_or(Value::Null))
}

fn vs(v: &Versions) -> (String, String) {
    (v.data_version.to_string(), v.interpreter_version.to_string())
}

/// decode -> (compare with `expect`) -> encode -> decode -> compare
fn data_round_trip(st: &mut Stats, case: u64, origin: &str, bytes: &[u8], expect: Option<(&Value, (String, String))>) {
    let Some(r1) = g(st, case, "data decode", bytes, || dec_data(bytes)) else { return };
    let (v1, inner1, d1) = match r1 {
        Ok(x) => x,
        Err(e) => {
            judged(st, &format!("data:{origin}"), bytes, false);
            return st.violation(P, &format!("encoded-data-does-not-decode@{origin}"), &format!("data encoded by the repository's encoder is rejected by its decoder: {e}"), case, json!({"data_b64": b64(bytes), "encoded": expect.map(|e| e.0)}));
        }
    };
    let p1 = pj(&d1);
    judged(st, &format!("data:{origin}"), bytes, !proj::trace(&p1).is_empty());
    if let Some((want, want_versions)) = expect {
        if &p1 != want || vs(&v1) != want_versions {
            st.violation(P, &format!("data-decodes-differently@{origin}"), &format!("decoded data differs from the encoded value: {}", first_diff(want, &p1)), case, json!({"encoded": want, "decoded": p1, "versions": [want_versions.0, want_versions.1, vs(&v1).0, vs(&v1).1]}));
        }
    }
    // the envelope read with a plain struct must show the same versions and inner bytes
    match rmp_serde::from_slice::<EnvWire>(bytes) {
        Ok(w) if (w.version.clone(), w.interpreter_version.clone()) == vs(&v1) && w.inner_data == inner1 => st.inc("envelopes_confirmed_by_plain_reader", 1),
        Ok(w) => st.violation(P, "envelope-decodes-differently", &format!("the envelope decoder reports versions {:?} and {} inner bytes, the wire holds {:?} and {} bytes", vs(&v1), inner1.len(), (w.version, w.interpreter_version), w.inner_data.len()), case, json!({"data_b64": b64(bytes)})),
        Err(_) => st.inc("odd_but_allowed:envelope_not_readable_by_plain_named_struct", 1),
    }
    let Some(r2) = g(st, case, "data encode", bytes, || enc_data(&v1, &d1)) else { return };
    let b2 = match r2 {
        Ok(b) => b,
        Err(e) => return st.violation(P, &format!("decoded-data-does-not-encode@{origin}"), &format!("re-encoding decoded data fails: {e}"), case, json!({"data_b64": b64(bytes)})),
    };
    st.inc(if b2 == bytes { "reencoded_bytes_identical" } else { "reencoded_bytes_differ(map order, not judged)" }, 1);
    match g(st, case, "data decode", &b2, || dec_data(&b2)) {
        Some(Ok((v2, _, d2))) => {
            let p2 = pj(&d2);
            if p1 != p2 || vs(&v1) != vs(&v2) {
                st.violation(P, &format!("data-roundtrip-differs@{origin}"), &format!("decode(encode(d)) != d: {}; versions {:?} -> {:?}", first_diff(&p1, &p2), vs(&v1), vs(&v2)), case, json!({"data_b64": b64(bytes), "first": p1, "second": p2}));
            }
        }
        Some(Err(e)) => st.violation(P, &format!("encoded-data-does-not-decode@{origin}-reencoded"), &format!("re-encoded data is rejected: {e}"), case, json!({"data_b64": b64(bytes), "reencoded_b64": b64(&b2)})),
        None => {}
    }
}

/// path of the first difference between two JSON values
fn first_diff(a: &Value, b: &Value) -> String {
    match (a, b) {
        (Value::Object(x), Value::Object(y)) => {
            for k in x.keys().chain(y.keys()) {
                match (x.get(k), y.get(k)) {
                    (Some(p), Some(q)) if txt(p) == txt(q) => {}
                    (Some(p), Some(q)) => return format!(".{}{}", proj::trunc(k, 40), first_diff(p, q)),
                    _ => return format!(".{} present on one side only", proj::trunc(k, 40)),
                }
            }
            String::new()
        }
        (Value::Array(x), Value::Array(y)) if x.len() == y.len() => x.iter().zip(y).enumerate().find(|(_, (p, q))| txt(p) != txt(q)).map(|(i, (p, q))| format!("[{i}]{}", first_diff(p, q))).unwrap_or_default(),
        (Value::Array(x), Value::Array(y)) => format!(" length {} vs {}", x.len(), y.len()),
        _ => format!(": {} vs {}", proj::trunc(&a.to_string(), 120), proj::trunc(&b.to_string(), 120)),
    }
}

/// origin of the dedicated probe for a value store entry whose text is empty
const EMPTY_VALUE: &str = "empty-value-string";

/// JSON -> InterpreterData -> bytes, then the round trip with the JSON as the expectation
fn generated_data(st: &mut Stats, case: u64, origin: &str, j: &mut Value, versions: (&str, &str)) {
    // an empty value text has its own probe (and its own signature); the general generators stay clear of it
    if let (Some(m), true) = (j["cid_info"]["value_store"].as_object_mut(), origin != EMPTY_VALUE) {
        m.values_mut().filter(|v| v.as_str() == Some("")).for_each(|v| *v = json!("null"));
    }
    let d0: InterpreterData = match serde_json::from_value(j.clone()) {
        Ok(d) => d,
        Err(e) => return st.inconclusive.push(format!("harness: generated data JSON ({origin}) is not accepted by serde: {e}")),
    };
    let want = sort_value(j);
    if pj(&d0) != want {
        // serde_json is not the encoding under test; such a value cannot serve as an expectation
        return st.inc("generated_json_changed_by_serde_json_alone(skipped)", 1);
    }
    let v = Versions { data_version: semver::Version::parse(versions.0).expect("semver"), interpreter_version: semver::Version::parse(versions.1).expect("semver") };
    match g(st, case, "data encode", &[], || enc_data(&v, &d0)) {
        Some(Ok(bytes)) => data_round_trip(st, case, origin, &bytes, Some((&want, (versions.0.to_string(), versions.1.to_string())))),
        Some(Err(e)) => st.violation(P, &format!("data-does-not-encode@{origin}"), &format!("encoding a valid InterpreterData fails: {e}"), case, json!({"data": j})),
        None => {}
    }
}

// ---------------------------------------------------------------- 2. versions readable, inner data not

const VERSIONS: [(&str, &str); 7] = [
    ("0.0.0", "0.0.0"),
    ("1.2.3-alpha.1+build.5", "0.99.0-rc.2"),
    ("18446744073709551615.18446744073709551615.18446744073709551615", "1.0.0+20130313144700"),
    ("1.0.0-0.3.7", "1.0.0-x.7.z.92+exp.sha.5114f85"),
    ("0.6.0", "0.6.0"),
    ("999.0.0-rc.1+meta-only", "999.999.999"),
    ("", ""), // replaced by the current versions
];

fn envelope_versions(st: &mut Stats, case: u64, rng: &mut Rng, s: &Step) {
    let t = crate::errcodes::table();
    let Ok(inner) = proj::inner_bytes(&s.out.data) else { return };
    let (cur_dv, cur_iv) = (air_interpreter_data::data_version().to_string(), air::interpreter_version().to_string());
    for k in 0..6 {
        let (dv, iv) = *rng.pick(&VERSIONS);
        let (dv, iv) = if dv.is_empty() { (cur_dv.as_str(), cur_iv.as_str()) } else { (dv, iv) };
        // an envelope with unreadable content: garbage inner bytes, or an inner_data field of the wrong type / absent
        let (kind, garbage, bytes): (&str, Vec<u8>, Vec<u8>) = if k < 4 {
            let garbage = match rng.below(5) {
                0 => {
                    let n = rng.below(200);
                    rng.bytes(n)
                }
                1 => inner[..rng.below(inner.len().max(1))].to_vec(),
                2 => vec![],
                _ => mutate_bytes(rng, &inner),
            };
            let bytes = proj::wrap_inner(&garbage, dv, iv).expect("harness: wrap_inner");
            ("garbage-inner", garbage, bytes)
        } else {
            let mut m = json!({"version": dv, "interpreter_version": iv});
            match rng.below(4) {
                0 => {}
                1 => m["inner_data"] = json!(rng.next_u64()),
                2 => m["inner_data"] = Value::Null,
                _ => m["inner_data"] = json!({"a": [1, 2]}),
            }
            ("mistyped-inner", vec![], rmp_serde::to_vec_named(&m).expect("harness: msgpack"))
        };
        let inner_ok = kind == "garbage-inner" && g(st, case, "inner data decode", &garbage, || InterpreterData::try_from_slice(&garbage).is_ok()).unwrap_or(false);
        let env_ok = g(st, case, "envelope decode", &bytes, || InterpreterDataEnvelope::try_from_slice(&bytes).map(|e| (vs(&e.versions), e.inner_data.to_vec())).map_err(|e| e.to_string()));
        let Some(env_ok) = env_ok else { continue };
        judged(st, &format!("versions:{kind}"), &bytes, !inner_ok);
        st.inc(if inner_ok { "garbage_inner_data_still_decodes(not judged)" } else { "envelopes_with_unreadable_inner_data" }, 1);
        let detail = json!({"envelope_b64": b64(&bytes), "data_version": dv, "interpreter_version": iv, "kind": kind});
        match (kind, &env_ok) {
            ("garbage-inner", Ok((v, i))) if *v == (dv.to_string(), iv.to_string()) && *i == garbage => {}
            ("garbage-inner", r) => st.violation(P, "envelope-decodes-differently@garbage-inner", &format!("an envelope holding versions ({dv}, {iv}) and {} inner bytes decodes to {:?}", garbage.len(), r.as_ref().map(|(v, i)| (v.clone(), i.len()))), case, detail.clone()),
            (_, Ok(_)) => st.inc("odd_but_allowed:envelope_with_mistyped_inner_data_decodes", 1),
            (_, Err(_)) => {}
        }
        match g(st, case, "try_get_versions", &bytes, || InterpreterDataEnvelope::try_get_versions(&bytes).map(|v| vs(&v)).map_err(|e| e.to_string())) {
            Some(Ok(v)) if v == (dv.to_string(), iv.to_string()) => st.inc("versions_read_back", 1),
            Some(r) => st.violation(P, &format!("versions-not-readable@{kind}"), &format!("try_get_versions on an envelope with versions ({dv}, {iv}) and unreadable inner data gives {r:?}"), case, detail.clone()),
            None => {}
        }
        // what the interpreter says about such current data (only a panic and the promised envelope message are judged)
        if k % 2 == 0 && !inner_ok {
            let mut input = s.input.clone();
            input.cur = bytes.clone();
            let o = invoke(&input);
            st.label(&format!("run_outcomes[{kind}]"), &t.name(o.ret_code));
            if o.ret_code == PANIC_CODE {
                let loc = o.error_message.split(" :: ").next().unwrap_or("?").trim_start_matches("PANIC at ").to_string();
                st.violation(P, &format!("panic@{loc}"), &format!("the interpreter panicked on current data with unreadable inner data: {}", o.error_message), case, detail);
            } else if kind == "mistyped-inner" && env_ok.is_err() && (o.ret_code != t.code("Prep::EnvelopeDeFailedWithVersions") || !o.error_message.contains(dv) || !o.error_message.contains(iv)) {
                // preparation.rs::to_envelope_de_error: when the envelope fails and its versions are readable, the error carries them
                st.violation(P, "versions-not-reported@mistyped-inner", &format!("envelope with readable versions ({dv}, {iv}) and unreadable inner_data: run ends with {} `{}`", t.name(o.ret_code), proj::trunc(&o.error_message, 300)), case, detail);
            } else if classify(o.ret_code) != CodeClass::Preparation {
                st.inc("odd_but_allowed:run_on_unreadable_inner_data_not_a_preparation_error", 1);
            }
        }
    }
}

// ---------------------------------------------------------------- 3. call request / call result maps

fn req_json(m: &BTreeMap<u32, CallRequest>) -> Value {
    Value::Object(m.iter().map(|(id, r)| (id.to_string(), json!({"service_id": r.service, "function_name": r.function, "arguments": r.args, "tetraplets": r.tetraplets}))).collect())
}

fn res_json(m: &BTreeMap<String, (i32, String)>) -> Value {
    Value::Object(m.iter().map(|(k, (c, r))| (k.clone(), json!({"ret_code": c, "result": r}))).collect())
}

fn tetraplet((peer_pk, service_id, function_name, lens): &(String, String, String, String)) -> SecurityTetraplet {
    SecurityTetraplet { peer_pk: peer_pk.clone(), service_id: service_id.clone(), function_name: function_name.clone(), lens: lens.clone() }
}

fn untetraplet(t: SecurityTetraplet) -> (String, String, String, String) {
    (t.peer_pk, t.service_id, t.function_name, t.lens)
}

fn enc_requests(m: &BTreeMap<u32, CallRequest>) -> Result<Vec<u8>, String> {
    let mut hm = ii::CallRequests::new();
    for (id, r) in m {
        let args: Vec<air_interpreter_value::JValue> = r.args.iter().map(Into::into).collect();
        let tets: Vec<Vec<Rc<SecurityTetraplet>>> = r.tetraplets.iter().map(|v| v.iter().map(|t| Rc::new(tetraplet(t))).collect()).collect();
        let args = ii::CallArgumentsRepr.serialize(&args).map_err(|e| format!("arguments: {e}"))?;
        let tets = ii::TetrapletsRepr.serialize(&tets).map_err(|e| format!("tetraplets: {e}"))?;
        hm.insert(*id, ii::CallRequestParams::new(r.service.clone(), r.function.clone(), args, tets));
    }
    Ok(ii::CallRequestsRepr.serialize(&hm).map_err(|e| format!("call requests: {e}"))?.to_vec())
}

/// interpreter-side decoders (as a host written against interpreter-interface would use them)
fn dec_requests(raw: &[u8]) -> Result<BTreeMap<u32, CallRequest>, String> {
    let reqs: ii::CallRequests = ii::CallRequestsRepr.deserialize(raw).map_err(|e| format!("call requests: {e}"))?;
    let mut out = BTreeMap::new();
    for (id, p) in reqs {
        let args: Vec<Value> = FromSerialized::<Vec<Value>>::deserialize(&ii::CallArgumentsRepr, &p.arguments).map_err(|e| format!("arguments of {id}: {e}"))?;
        let tets: Vec<Vec<SecurityTetraplet>> = FromSerialized::<Vec<Vec<SecurityTetraplet>>>::deserialize(&ii::TetrapletsRepr, &p.tetraplets).map_err(|e| format!("tetraplets of {id}: {e}"))?;
        out.insert(id, CallRequest { service: p.service_id, function: p.function_name, args, tetraplets: tets.into_iter().map(|v| v.into_iter().map(untetraplet).collect()).collect() });
    }
    Ok(out)
}

/// host-side view: avm-interface's RawAVMOutcome
fn host_requests(raw: &[u8], ret_code: i64, msg: &str, data: &[u8], next: &[String]) -> Result<BTreeMap<u32, CallRequest>, String> {
    let outcome = ii::InterpreterOutcome {
        ret_code,
        error_message: msg.to_string(),
        data: data.to_vec(),
        next_peer_pks: next.to_vec(),
        call_requests: raw.to_vec(),
        air_size_limit_exceeded: false,
        particle_size_limit_exceeded: true,
        call_result_size_limit_exceeded: false,
    };
    let o = avm_interface::raw_outcome::RawAVMOutcome::from_interpreter_outcome(outcome).map_err(|e| proj::trunc(&e.to_string(), 300))?;
    let l = &o.soft_limits_triggering;
    if (o.ret_code, o.error_message.as_str(), o.data.as_slice(), o.next_peer_pks.as_slice()) != (ret_code, msg, data, next) || (l.air_size_limit_exceeded, l.particle_size_limit_exceeded, l.call_result_size_limit_exceeded) != (false, true, false) {
        return Err("ret_code / error_message / data / next_peer_pks / limit flags changed on the way".into());
    }
    Ok(o.call_requests.into_iter().map(|(id, p)| (id, CallRequest { service: p.service_id, function: p.function_name, args: p.arguments, tetraplets: p.tetraplets.into_iter().map(|v| v.into_iter().map(untetraplet).collect()).collect() })).collect())
}

#[derive(serde::Deserialize)]
struct ReqWire {
    service_id: String,
    function_name: String,
    #[serde(with = "serde_bytes")]
    arguments: Vec<u8>,
    #[serde(with = "serde_bytes")]
    tetraplets: Vec<u8>,
}

/// the wire read without the repository's codec layer: varint tag, then msgpack maps with named fields
fn wire_requests(raw: &[u8]) -> Result<BTreeMap<u32, CallRequest>, String> {
    let body = raw.strip_prefix(&RIGHT_PREFIX).ok_or("prefix is not varint(0x0201)")?;
    let m: BTreeMap<u32, ReqWire> = rmp_serde::from_slice(body).map_err(|e| e.to_string())?;
    let mut out = BTreeMap::new();
    for (id, w) in m {
        let args: Vec<Value> = rmp_serde::from_slice(&w.arguments).map_err(|e| e.to_string())?;
        let tets: Vec<Vec<BTreeMap<String, String>>> = rmp_serde::from_slice(&w.tetraplets).map_err(|e| e.to_string())?;
        let f = |t: &BTreeMap<String, String>, k: &str| t.get(k).cloned().ok_or(format!("tetraplet without {k}"));
        let mut tetraplets = vec![];
        for v in &tets {
            tetraplets.push(v.iter().map(|t| -> Result<_, String> { Ok((f(t, "peer_pk")?, f(t, "service_id")?, f(t, "function_name")?, f(t, "lens")?)) }).collect::<Result<Vec<_>, String>>()?);
        }
        out.insert(id, CallRequest { service: w.service_id, function: w.function_name, args, tetraplets });
    }
    Ok(out)
}

fn enc_results(m: &BTreeMap<String, (i32, String)>) -> Result<Vec<u8>, String> {
    let hm: ii::CallResults = m.iter().map(|(k, (c, r))| (k.clone(), ii::CallServiceResult { ret_code: *c, result: r.clone() })).collect();
    Ok(ii::CallResultsRepr.serialize(&hm).map_err(|e| format!("call results: {e}"))?.to_vec())
}

fn dec_results(raw: &[u8]) -> Result<BTreeMap<String, (i32, String)>, String> {
    let hm: ii::CallResults = ii::CallResultsRepr.deserialize(raw).map_err(|e| format!("call results: {e}"))?;
    Ok(hm.into_iter().map(|(k, r)| (k, (r.ret_code, r.result))).collect())
}

#[derive(serde::Deserialize)]
struct ResWire {
    ret_code: i32,
    result: String,
}

fn wire_results(raw: &[u8]) -> Result<BTreeMap<String, (i32, String)>, String> {
    let body = raw.strip_prefix(&RIGHT_PREFIX).ok_or("prefix is not varint(0x0201)")?;
    let m: BTreeMap<String, ResWire> = rmp_serde::from_slice(body).map_err(|e| e.to_string())?;
    Ok(m.into_iter().map(|(k, w)| (k, (w.ret_code, w.result))).collect())
}

/// Compare every reading of an encoded map with the map that was encoded.
fn judge_readings(st: &mut Stats, case: u64, kind: &str, want: &Value, raw: &[u8], readings: Vec<(&str, Option<Result<Value, String>>)>) {
    for (reader, r) in readings {
        let Some(r) = r else { continue };
        judged(st, &format!("{kind}:{reader}"), raw, want.as_object().map(|m| !m.is_empty()).unwrap_or(false));
        let detail = || json!({"encoded": want, "payload_b64": b64(raw), "reader": reader});
        match r {
            Ok(got) if txt(&got) == txt(want) => {}
            Ok(got) => st.violation(P, &format!("{kind}-decode-differently@{reader}"), &format!("{kind} map read by the {reader} decoder differs from the encoded map at {}", first_diff(want, &got)), case, json!({"encoded": want, "decoded": got, "payload_b64": b64(raw)})),
            // the wire layout is not part of the statement: a plain reader that cannot read it only loses a cross-check
            Err(_) if reader == "plain-wire" => st.inc("odd_but_allowed:payload_not_readable_by_plain_named_structs", 1),
            Err(e) => st.violation(P, &format!("encoded-{kind}-do-not-decode@{reader}"), &format!("{kind} map encoded by the repository's encoder is rejected by the {reader} decoder: {e}"), case, detail()),
        }
    }
}

fn request_map(st: &mut Stats, case: u64, rng: &mut Rng, m: &BTreeMap<u32, CallRequest>) -> Option<Vec<u8>> {
    let want = req_json(m);
    let raw = match g(st, case, "call requests encode", &[], || enc_requests(m))? {
        Ok(b) => b,
        Err(e) => {
            st.violation(P, "requests-do-not-encode", &format!("encoding a call request map fails: {e}"), case, json!({"map": want}));
            return None;
        }
    };
    let (n_data, n_next) = (rng.below(40), rng.below(3));
    let (code, msg, data, next) = (*rng.pick(&[0i64, 30000, i64::MIN, i64::MAX]), gstr(rng), rng.bytes(n_data), vec![gstr(rng); n_next]);
    let readings = vec![
        ("interpreter-interface", g(st, case, "call requests decode", &raw, || dec_requests(&raw).map(|m| req_json(&m)))),
        ("avm-interface", g(st, case, "RawAVMOutcome::from_interpreter_outcome", &raw, || host_requests(&raw, code, &msg, &data, &next).map(|m| req_json(&m)))),
        ("plain-wire", Some(wire_requests(&raw).map(|m| req_json(&m)))),
    ];
    judge_readings(st, case, "requests", &want, &raw, readings);
    if case == 0 && !m.is_empty() {
        st.sample(json!({"kind": "call request map: encoded, read back by three readers", "entries": m.len(), "map": proj::trunc(&want.to_string(), 600), "payload_hex": proj::trunc(&raw.iter().map(|b| format!("{b:02x}")).collect::<String>(), 200)}));
    }
    Some(raw)
}

fn result_map(st: &mut Stats, case: u64, m: &BTreeMap<String, (i32, String)>) -> Option<Vec<u8>> {
    let want = res_json(m);
    let raw = match g(st, case, "call results encode", &[], || enc_results(m))? {
        Ok(b) => b,
        Err(e) => {
            st.violation(P, "results-do-not-encode", &format!("encoding a call result map fails: {e}"), case, json!({"map": want}));
            return None;
        }
    };
    let readings = vec![
        ("interpreter-interface", g(st, case, "call results decode", &raw, || dec_results(&raw).map(|m| res_json(&m)))),
        ("plain-wire", Some(wire_results(&raw).map(|m| res_json(&m)))),
    ];
    judge_readings(st, case, "results", &want, &raw, readings);
    Some(raw)
}

/// host side of call results: avm-interface turns (u32 id -> JSON value) into the string-keyed map
fn host_results(st: &mut Stats, case: u64, rng: &mut Rng) {
    let src: BTreeMap<u32, (i32, Value)> = (0..rng.below(8))
        .map(|i| {
            let r = rng.next_u64() as u32;
            (*rng.pick(&[0, u32::MAX, i as u32 + 1, r]), (*rng.pick(&[0, i32::MIN, i32::MAX, -1]), gjson(rng, 3)))
        })
        .collect();
    let host: HashMap<u32, avm_interface::CallServiceResult> = src.iter().map(|(id, (c, v))| (*id, avm_interface::CallServiceResult { ret_code: *c, result: v.clone() })).collect();
    let want: BTreeMap<String, (i32, String)> = src.iter().map(|(id, (c, v))| (id.to_string(), (*c, serde_json::to_string(v).unwrap_or_default()))).collect();
    let Some(raw_map) = g(st, case, "into_raw_result", &[], || avm_interface::into_raw_result(host)) else { return };
    let got: BTreeMap<String, (i32, String)> = raw_map.into_iter().map(|(k, r)| (k, (r.ret_code, r.result))).collect();
    judged(st, "results:avm-interface-into-raw", res_json(&want).to_string().as_bytes(), !want.is_empty());
    if got != want {
        st.violation(P, "results-encode-differently@avm-interface", &format!("into_raw_result changes the map at {}", first_diff(&res_json(&want), &res_json(&got))), case, json!({"encoded": res_json(&want), "got": res_json(&got)}));
    }
    for (id, (_, v)) in &src {
        // serde_json parses floats fast, not exactly: the text is what the map carries, a re-parsed float is not judged
        let same = serde_json::from_str::<Value>(&want[&id.to_string()].1).map(|p| txt(&p) == txt(v)).unwrap_or(false);
        st.inc(if same { "host_result_texts_reparse_exactly" } else { "odd_but_allowed:host_result_text_reparses_to_a_neighbouring_float" }, 1);
    }
    let _ = result_map(st, case, &got);
}

// ---------------------------------------------------------------- 4. codec tags

#[derive(Debug, PartialEq)]
enum Tag {
    Right,
    RightNotMinimal,
    Other(u64),
    /// empty, unterminated or longer than 9 bytes
    Invalid,
}

/// unsigned-varint of the multiformats spec, read leniently (non-minimal forms are decoded and reported)
fn read_tag(b: &[u8]) -> Tag {
    let mut v = 0u64;
    for (i, x) in b.iter().take(9).enumerate() {
        v |= ((x & 0x7f) as u64) << (7 * i);
        if x & 0x80 == 0 {
            return match (v == MSGPACK, *x == 0 && i > 0) {
                (true, false) => Tag::Right,
                (true, true) => Tag::RightNotMinimal,
                _ => Tag::Other(v),
            };
        }
    }
    Tag::Invalid
}

fn varint(mut v: u64) -> Vec<u8> {
    let mut out = vec![];
    loop {
        let b = (v & 0x7f) as u8;
        v >>= 7;
        out.push(if v == 0 { b } else { b | 0x80 });
        if v == 0 {
            return out;
        }
    }
}

/// payloads whose tag was replaced; the first one is the intact payload
fn retagged(rng: &mut Rng, raw: &[u8]) -> Vec<(String, Vec<u8>)> {
    let body = &raw[RIGHT_PREFIX.len().min(raw.len())..];
    let with = |p: &[u8]| [p, body].concat();
    let mut out = vec![("intact".to_string(), raw.to_vec())];
    for c in [0x0200u64, 0x55, 0x51, 0x00, 0x01, 0x0202, 0x0101, 0x0281, 0x81, 0x04, 0x71, 0x0129, rng.next_u64() as u32 as u64, rng.next_u64() >> rng.below(64)] {
        out.push((format!("codec {c:#x}"), with(&varint(c))));
    }
    // the same low 32 bits as msgpack under a tag wider than 32 bits
    for c in [0x1_0000_0201u64, 0x7_0000_0201, 0x8_0000_0201, (1 << 62) | 0x0201] {
        out.push((format!("codec {c:#x}"), with(&varint(c))));
    }
    out.push(("10-byte tag".into(), with(&[0x81, 0x84, 0x80, 0x80, 0x80, 0x80, 0x80, 0x80, 0x80, 0x01])));
    for p in [&[0x81u8, 0x84, 0x00][..], &[0x81, 0x84, 0x80, 0x00], &[0x81, 0x84, 0x80, 0x80, 0x00], &[0x80, 0x84, 0x00]] {
        out.push((format!("non-minimal {p:02x?}"), with(p)));
    }
    out.push(("unterminated ff*6".into(), with(&[0xff; 6])));
    out.push(("unterminated ff*12".into(), with(&[0xff; 12])));
    out.push(("tag cut".into(), vec![0x81]));
    out.push(("empty".into(), vec![]));
    out.push(("no tag".into(), body.to_vec()));
    let n = rng.range(1, 3);
    out.push(("random tag bytes".into(), with(&rng.bytes(n))));
    out.push(("mutated".into(), mutate_bytes(rng, &raw[..raw.len().min(3)]).into_iter().chain(raw.iter().skip(3).cloned()).collect()));
    out
}

/// codec numbers that do not fit the decoder's u32 are reported under one signature of their own
fn foreign_sig(codec: u64, what: &str) -> String {
    if codec > u32::MAX as u64 { "foreign-codec-accepted@tag-wider-than-32-bits".into() } else { format!("foreign-codec-accepted@{what}") }
}

fn codec_tags(st: &mut Stats, case: u64, rng: &mut Rng, what: &str, raw: &[u8], s: Option<&Step>) {
    let t = crate::errcodes::table();
    let variants = retagged(rng, raw);
    let run_on: Vec<usize> = (0..3).map(|_| rng.below(variants.len())).collect();
    for (i, (label, payload)) in variants.iter().enumerate() {
        let tag = read_tag(payload);
        let decoded = if what == "requests" {
            g(st, case, "call requests decode", payload, || dec_requests(payload).map(|m| req_json(&m)))
        } else {
            g(st, case, "call results decode", payload, || dec_results(payload).map(|m| res_json(&m)))
        };
        let Some(decoded) = decoded else { continue };
        judged(st, &format!("tags:{what}"), payload, i > 0);
        st.inc(&format!("tags[{}]", format!("{tag:?}").split('(').next().unwrap_or("?")), 1);
        let detail = json!({"what": what, "mutation": label, "payload_b64": b64(payload), "tag_read_by_reference": format!("{tag:x?}"), "decoded": decoded.as_ref().ok()});
        if case == 1 && i == 1 {
            st.sample(json!({"kind": "re-tagged payload", "what": what, "mutation": label, "tag_read_by_reference": format!("{tag:x?}"), "payload_hex": proj::trunc(&payload.iter().map(|b| format!("{b:02x}")).collect::<String>(), 120), "decoder": decoded.as_ref().map(|_| "Ok").unwrap_or_else(|e| e.as_str())}));
        }
        match (&tag, &decoded) {
            (Tag::Other(c), Ok(_)) => {
                st.violation(P, &foreign_sig(*c, what), &format!("a {what} payload tagged with codec {c:#x} ({label}) decodes instead of failing"), case, detail);
            }
            (Tag::Right, Err(e)) if i == 0 => st.violation(P, &format!("right-codec-rejected@{what}"), &format!("the intact {what} payload is rejected: {e}"), case, detail),
            (Tag::Other(_), Err(_)) => st.inc("foreign_codec_rejected", 1),
            (Tag::Invalid, Ok(_)) => st.inc("odd_but_allowed:payload_with_unreadable_tag_decodes", 1),
            (Tag::RightNotMinimal, Ok(_)) => st.inc("odd_but_allowed:non_minimal_right_tag_accepted", 1),
            (Tag::RightNotMinimal, Err(_)) => st.inc("odd_but_allowed:non_minimal_right_tag_rejected", 1),
            _ => {}
        }
        // the same payload handed to the interpreter as call results
        let (Some(s), true) = (s, what == "results" && (i == 0 || run_on.contains(&i))) else { continue };
        let mut input = s.input.clone();
        input.call_results = CallResultsIn::Raw(payload.clone());
        let o = invoke(&input);
        judged(st, "tags:interpreter-run", payload, i > 0);
        st.label("run_outcomes[retagged call results]", &t.name(o.ret_code));
        let de_failed = o.ret_code == t.code("Prep::CallResultsDeFailed");
        let rdetail = json!({"mutation": label, "call_results_b64": b64(payload), "ret_code": o.ret_code, "message": proj::trunc(&o.error_message, 300), "air": input.air});
        if o.ret_code == PANIC_CODE {
            let loc = o.error_message.split(" :: ").next().unwrap_or("?").trim_start_matches("PANIC at ").to_string();
            st.violation(P, &format!("panic@{loc}"), &format!("the interpreter panicked on call results ({label}): {}", o.error_message), case, rdetail);
        } else if let (Tag::Other(c), false) = (&tag, de_failed && o.data == input.prev) {
            st.violation(P, &foreign_sig(*c, "interpreter-run"), &format!("call results tagged with codec {c:#x} ({label}): the run ends with {} and {} instead of CallResultsDeFailed with the previous data", t.name(o.ret_code), if o.data == input.prev { "the previous data" } else { "other data" }), case, rdetail);
        } else if i == 0 && de_failed {
            st.violation(P, "right-codec-rejected@interpreter-run", &format!("intact call results are rejected by the interpreter: {}", o.error_message), case, rdetail);
        }
    }
}

// ---------------------------------------------------------------- driver

pub fn run(cfg: &Cfg) -> Report {
    let n = cfg.scale(150, 7500);
    let mut stats = run_honest(cfg, 27, n, &[Frag::Seq, Frag::Stream], |c, case, rng, st| {
        let produced: Vec<&Step> = c.history.steps.iter().filter(|s| s.produced_new_data() && !s.out.data.is_empty()).collect();
        let (cur_dv, cur_iv) = (air_interpreter_data::data_version().to_string(), air::interpreter_version().to_string());
        // 1. every data of the history; the requests of every run as the host sees them
        let mut done = std::collections::HashSet::new();
        for s in &produced {
            if done.insert(fnv(&s.out.data)) {
                data_round_trip(st, case, "history", &s.out.data, None);
                match proj::decode(&s.out.data) {
                    Ok(v) if (v.data_version.as_str(), v.interpreter_version.as_str()) != (cur_dv.as_str(), cur_iv.as_str()) => st.violation(P, "produced-envelope-versions-differ", &format!("produced data carries versions ({}, {}), the interpreter is ({cur_dv}, {cur_iv})", v.data_version, v.interpreter_version), case, json!({"step": s.idx, "air": c.world.air})),
                    _ => {}
                }
            }
            if let (Ok(reqs), false) = (&s.out.requests, s.out.call_requests_raw.is_empty()) {
                let raw = &s.out.call_requests_raw;
                let readings = vec![
                    ("avm-interface", g(st, case, "RawAVMOutcome::from_interpreter_outcome", raw, || host_requests(raw, s.out.ret_code, &s.out.error_message, &s.out.data, &s.out.next_peers).map(|m| req_json(&m)))),
                    ("plain-wire", Some(wire_requests(raw).map(|m| req_json(&m)))),
                ];
                judge_readings(st, case, "requests", &req_json(reqs), raw, readings);
            }
        }
        // 1b. data the histories do not produce
        for k in 0..6 {
            let (dv, iv) = *rng.pick(&VERSIONS[..6]);
            let (dv, iv) = if k % 2 == 0 { (cur_dv.as_str(), cur_iv.as_str()) } else { (dv, iv) };
            match (k < 3, produced.is_empty()) {
                (true, false) => {
                    let mut j = rng.pick(&produced).out_v.as_deref().cloned().unwrap_or_else(|| gen_data(rng));
                    mutate_leaves(rng, &mut j, "");
                    if rng.chance(1, 4) {
                        j["cid_info"][*rng.pick(&["value_store", "tetraplet_store", "service_result_store", "canon_result_store", "canon_element_store"])] = json!({});
                    }
                    if rng.chance(1, 4) {
                        for _ in 0..rng.range(1, 50) {
                            j["signatures"][bs58::encode(rng.bytes(32)).into_string()] = json!(bs58::encode(rng.bytes(64)).into_string());
                        }
                    }
                    generated_data(st, case, "mutated-history-json", &mut j, (dv, iv));
                }
                _ => generated_data(st, case, "generated-json", &mut gen_data(rng), (dv, iv)),
            }
        }
        let mut j = json!({"trace": [], "lcid": 0, "cid_info": {"value_store": {gcid(rng): ""}, "tetraplet_store": {}, "canon_element_store": {}, "canon_result_store": {}, "service_result_store": {}}, "signatures": {}});
        generated_data(st, case, EMPTY_VALUE, &mut j, (&cur_dv, &cur_iv));
        // 2. envelopes whose versions are readable and whose inner data is not
        if !produced.is_empty() {
            let s = *rng.pick(&produced);
            envelope_versions(st, case, rng, s);
        }
        // 3 + 4. generated maps and their re-tagged payloads
        let step = if produced.is_empty() { None } else { Some(*rng.pick(&produced)) };
        for k in 0..6 {
            let reqs = gen_requests(rng);
            let raw = request_map(st, case, rng, &reqs);
            if let (Some(raw), true) = (&raw, k == 0) {
                codec_tags(st, case, rng, "requests", raw, None);
            }
            let raw = result_map(st, case, &gen_results(rng));
            if let (Some(raw), true) = (&raw, k == 0) {
                codec_tags(st, case, rng, "results", raw, step);
            }
            host_results(st, case, rng);
        }
    });
    crate::sanitize::passes_for("C27", cfg, &mut stats);
    Report {
        prop: P,
        level: "exploration",
        stats,
        evaluations_key: "evaluations",
        nontrivial_key: "nontrivial",
        rule: "one evaluation = one judged round trip or decode attempt. (1) every data produced in generated honest multi-peer histories is decoded, re-encoded and decoded again (JSON projections with sorted keys and versions must agree, the envelope is re-read with a plain msgpack struct, versions must be the interpreter's); InterpreterData JSON the histories never produce (history JSON with u32 boundary values in every numeric position, odd/unicode/long strings, long vectors, emptied stores, many signatures; and data generated from scratch with every state kind) is encoded and must decode to the same JSON; (2) envelopes with several version pairs (pre-release, build metadata, u64::MAX) around garbage/truncated/mutated inner bytes or a mistyped/absent inner_data field: try_get_versions must return exactly those versions, a run on a mistyped envelope must end with EnvelopeDeFailedWithVersions naming them; (3) generated call-request maps (0-20 entries, ids 0/u32::MAX, empty/unicode/long strings, nested JSON arguments with i64/u64/f64 boundaries, tetraplets) and call-result maps (ret codes i32::MIN/MAX, odd keys) are encoded and read back by the interpreter-interface decoders, by avm-interface (RawAVMOutcome, into_raw_result) and by a plain rmp_serde reader, each must equal the encoded map exactly; the call requests of every history run are compared across the same readers; (4) the codec tag of encoded payloads is replaced (other codecs, tags wider than 32 bits, non-minimal, unterminated, absent): a payload whose tag reads as a codec other than 0x0201 must be rejected by the decoders, and by the interpreter with CallResultsDeFailed and unchanged previous data; the intact payload must decode. non-trivial = data with a non-empty trace, map with at least one entry, envelope whose inner data is unreadable, payload with a replaced tag; distinct by FNV of the bytes".into(),
        assumptions: vec![
            "JSON projection (serde) of InterpreterData is the observation of decoded data; byte identity of re-encoded data is not demanded (hash-map order)".into(),
            "non-minimal varints of the right codec, payloads with an unreadable tag, and the run outcome on garbage inner data are counted, not judged".into(),
        ],
    }
}
