//! C08: merge results do not depend on delivery order or grouping.
//!
//! Experiment on every generated honest history: D = the distinct data the peers hold at the end
//! plus a few intermediate ones. D is merged (a) at an observer that appears in no script, starting
//! from nothing, in many orders; (b) in groupings: a subset is merged at a second observer first and
//! only its result is delivered; (c) at a participating peer on top of its own final data. Oracle:
//! the knowledge of the result -- the multiset of executed call results, failed calls and executed
//! canons by content id -- is the same for every order and grouping; for scripts without streams
//! and maps the decoded traces are identical up to who sent pending requests; with streams the
//! multiset of states is identical up to generation numbers and the layout of fold iterations.
use super::c09::knowledge;
use super::honest::*;
use crate::invoke::*;
use crate::keys::Peer;
use crate::proj::{self, St};
use crate::report::*;
use crate::rng::{fnv, Rng};
use serde_json::{json, Value};
use std::collections::BTreeMap;
use std::rc::Rc;

struct Merged {
    data: Vec<u8>,
    view: Option<Value>,
    codes: Vec<i64>,
    dropped: bool,
    dropped_last: bool,
    runs: u64,
}

/// Merge `order` one after the other at `peer`, starting from `start`.
fn merge_at(w: &crate::sim::World, peer: &Peer, start: &[u8], order: &[Rc<Vec<u8>>]) -> Merged {
    let mut prev = start.to_vec();
    let mut codes = vec![];
    let mut dropped = false;
    let mut dropped_last = false;
    let mut runs = 0;
    for d in order {
        let mut input = w.input(peer);
        input.prev = prev.clone();
        input.cur = (**d).clone();
        let o = invoke(&input);
        runs += 1;
        codes.push(o.ret_code);
        if super::taint::dropped_states(&o) > 0 {
            dropped = true;
        }
        if super::taint::after_states_unconsumed(&o) > 0 {
            dropped_last = true;
        }
        // the host stores whatever comes back (on failure that is the previous data)
        prev = o.data;
    }
    let view = proj::decode(&prev).ok().map(|v| v.data);
    Merged { data: prev, view, codes, dropped, dropped_last, runs }
}

/// states up to the identity of who sent a pending request
fn modulo_senders(v: &Value) -> Vec<String> {
    proj::states(v)
        .iter()
        .map(|s| match s {
            St::CallSent(..) => "call-sent".to_string(),
            St::CanonSent(..) => "canon-sent".to_string(),
            other => format!("{other:?}"),
        })
        .collect()
}

/// multiset of states up to senders, generation numbers and the layout of fold iterations
fn state_multiset(v: &Value) -> BTreeMap<String, usize> {
    let mut m = BTreeMap::new();
    for s in proj::states(v) {
        let k = match s {
            St::CallSent(..) => "call-sent".to_string(),
            St::CanonSent(..) => "canon-sent".to_string(),
            St::CallExec { kind, cid, .. } => format!("exec:{kind}:{cid}"),
            St::CallFailed(c) => format!("failed:{c}"),
            St::CanonExec(c) => format!("canon:{c}"),
            St::Ap(g) => format!("ap:{}", g.len()),
            St::Fold(l) => format!("fold:{}", l.len()),
            // a par in `(fold (par body (next)))` spans the iterations that follow it in this peer's order
            St::Par(..) => "par".to_string(),
            St::Unknown => "?".to_string(),
        };
        *m.entry(k).or_default() += 1;
    }
    m
}

fn diff_knowledge(a: &BTreeMap<String, (u64, String)>, b: &BTreeMap<String, (u64, String)>) -> String {
    let mut out = vec![];
    for (k, (n, _)) in a {
        match b.get(k) {
            Some((m, _)) if m == n => {}
            Some((m, _)) => out.push(format!("{k}: {n} vs {m}")),
            None => out.push(format!("{k}: {n} vs 0")),
        }
    }
    for (k, (m, _)) in b {
        if !a.contains_key(k) {
            out.push(format!("{k}: 0 vs {m}"));
        }
    }
    proj::trunc(&out.join("; "), 400)
}

pub fn run(cfg: &Cfg) -> Report {
    let n = cfg.scale(400, 8000);
    let stats = run_honest(cfg, 8, n, &[Frag::Seq, Frag::Stream, Frag::Stream, Frag::SeqNoFail, Frag::StreamNoFail], |c, case, rng, st| {
        let w = &c.world;
        let h = &c.history;
        // the data set: final data of every peer, plus up to three intermediate outputs
        let mut set: Vec<Rc<Vec<u8>>> = vec![];
        let mut push = |d: Rc<Vec<u8>>, set: &mut Vec<Rc<Vec<u8>>>| {
            if !d.is_empty() && !set.iter().any(|x| **x == *d) {
                set.push(d);
            }
        };
        for d in h.final_datas() {
            push(d, &mut set);
        }
        let producing: Vec<&crate::sim::Step> = h.steps.iter().filter(|s| s.produced_new_data()).collect();
        for _ in 0..3 {
            if !producing.is_empty() {
                let s = producing[rng.below(producing.len())];
                push(Rc::new(s.out.data.clone()), &mut set);
            }
        }
        if set.len() < 2 {
            st.inc("histories_with_less_than_two_data", 1);
            return;
        }
        if set.len() > 6 {
            set.truncate(6);
        }
        // every order merges every data once: large data (recursive streams) get fewer orders
        let total_bytes: usize = set.iter().map(|d| d.len()).sum();
        let heavy = total_bytes > 150_000;
        if heavy {
            st.inc("histories_with_large_data_merged_in_fewer_orders", 1);
            set.truncate(4);
        }
        st.inc("histories_judged", 1);
        let tainted_inputs = super::taint::first_drop(h).is_some();
        let streamless = !c.has_streams && c.world.script.is_some();
        // orders: all permutations for up to 4 data, else random ones
        let mut orders: Vec<Vec<usize>> = vec![];
        if heavy {
            for _ in 0..4 {
                let mut o: Vec<usize> = (0..set.len()).collect();
                rng.shuffle(&mut o);
                orders.push(o);
            }
        } else if set.len() <= 4 {
            permutations(set.len(), &mut orders);
        } else {
            for _ in 0..16 {
                let mut o: Vec<usize> = (0..set.len()).collect();
                rng.shuffle(&mut o);
                orders.push(o);
            }
        }
        let observer = w.observer.clone();
        let mut reference: Option<(Vec<usize>, Merged)> = None;
        let mut any_dropped = tainted_inputs;
        let mut any_last = h.steps.iter().any(|s| super::taint::after_states_unconsumed(&s.out) > 0);
        let mut results: Vec<(String, Merged)> = vec![];
        for o in &orders {
            let seq: Vec<Rc<Vec<u8>>> = o.iter().map(|i| set[*i].clone()).collect();
            let m = merge_at(w, &observer, &[], &seq);
            st.inc("merge_runs", m.runs);
            st.inc("orders_merged", 1);
            any_dropped |= m.dropped;
            any_last |= m.dropped_last;
            results.push((format!("order {o:?} at the observer"), m));
        }
        // groupings: a subset is merged at a second observer first
        let second = Peer::new("observer2");
        for _ in 0..3 {
            let mut idx: Vec<usize> = (0..set.len()).collect();
            rng.shuffle(&mut idx);
            let k = rng.range(2, set.len());
            let (grp, rest) = idx.split_at(k);
            let g = merge_at(w, &second, &[], &grp.iter().map(|i| set[*i].clone()).collect::<Vec<_>>());
            any_dropped |= g.dropped;
            any_last |= g.dropped_last;
            let mut seq: Vec<Rc<Vec<u8>>> = rest.iter().map(|i| set[*i].clone()).collect();
            let at = rng.below(seq.len() + 1);
            seq.insert(at, Rc::new(g.data.clone()));
            let m = merge_at(w, &observer, &[], &seq);
            st.inc("merge_runs", g.runs + m.runs);
            st.inc("groupings_merged", 1);
            any_dropped |= m.dropped;
            any_last |= m.dropped_last;
            results.push((format!("group {grp:?} merged first, delivered at position {at} among {rest:?}"), m));
        }
        let last_script = super::taint::has_stateful_last_instruction_in_stream_fold(&w.air);
        if last_script {
            st.inc("histories_of_scripts_with_a_stateful_last_instruction_in_a_stream_fold", 1);
        }
        let last_tag = if any_last { super::taint::SUFFIX_LAST } else if last_script { super::taint::SUFFIX_LAST_SCRIPT } else { "" };
        let suffix = if last_tag.is_empty() { (if any_dropped { super::taint::SUFFIX } else { "" }).to_string() } else { last_tag.to_string() };
        let detail = |a: &str, b: &str| json!({"first": a, "second": b, "history": history_sample(c, 30)});
        for (label, m) in results {
            let Some(v) = &m.view else {
                st.violation("C08", &format!("merged-data-undecodable{suffix}"), &format!("{label}: the merged data does not decode"), case, detail(&label, ""));
                continue;
            };
            match &reference {
                None => reference = Some((vec![], m)),
                Some((_, r)) => {
                    let rv = r.view.as_ref().unwrap();
                    st.inc("comparisons", 1);
                    let (ka, kb) = (knowledge(rv), knowledge(v));
                    if !ka.is_empty() {
                        st.seen("nontrivial_comparisons", fnv(&r.data) ^ fnv(&m.data).rotate_left(21) ^ fnv(label.as_bytes()));
                    }
                    let failing = r.codes.iter().chain(&m.codes).any(|c| !matches!(classify(*c), CodeClass::Success));
                    if failing {
                        st.inc("comparisons_with_a_non_success_merge_run", 1);
                    }
                    if ka != kb {
                        let sig = if failing { "knowledge-differs@with-failing-merge-run" } else { "knowledge-differs" };
                        st.violation("C08", &format!("{sig}{suffix}"), &format!("the first order and {label} end with different knowledge: {}; run codes {:?} vs {:?}", diff_knowledge(&ka, &kb), r.codes, m.codes), case, detail("first order", &label));
                        continue;
                    }
                    if streamless {
                        st.inc("streamless_trace_comparisons", 1);
                        if modulo_senders(rv) != modulo_senders(v) {
                            st.violation("C08", &format!("trace-differs@no-streams{suffix}"), &format!("no streams in the script, yet the first order and {label} end with different traces: {:?} vs {:?}", proj::render_trace(rv), proj::render_trace(v)), case, detail("first order", &label));
                        }
                    } else {
                        st.inc("stream_state_multiset_comparisons", 1);
                        if state_multiset(rv) != state_multiset(v) {
                            st.violation("C08", &format!("states-differ@streams{suffix}"), &format!("the first order and {label} end with different sets of states (generation numbers and fold layout ignored): {:?} vs {:?}", proj::render_trace(rv), proj::render_trace(v)), case, detail("first order", &label));
                        }
                    }
                }
            }
        }
        // at a participating peer, on top of its own final data
        let p = rng.below(w.peers.len());
        let own = h.final_datas()[p].clone();
        let mut base: Option<Merged> = None;
        for _ in 0..4 {
            let mut o: Vec<usize> = (0..set.len()).collect();
            rng.shuffle(&mut o);
            let m = merge_at(w, &w.peers[p], &own, &o.iter().map(|i| set[*i].clone()).collect::<Vec<_>>());
            st.inc("merge_runs", m.runs);
            st.inc("orders_merged_at_a_participant", 1);
            let dropped = any_dropped || m.dropped;
            let suffix = if any_last || m.dropped_last { super::taint::SUFFIX_LAST } else if last_script { super::taint::SUFFIX_LAST_SCRIPT } else if dropped { super::taint::SUFFIX } else { "" };
            let Some(v) = &m.view else { continue };
            match &base {
                None => base = Some(m),
                Some(b) => {
                    st.inc("comparisons", 1);
                    let (ka, kb) = (knowledge(b.view.as_ref().unwrap()), knowledge(v));
                    if ka != kb {
                        st.violation("C08", &format!("knowledge-differs@participant{suffix}"), &format!("{} merging the same data in two orders on top of its own ends with different knowledge: {}; run codes {:?} vs {:?}", w.peers[p].name, diff_knowledge(&ka, &kb), b.codes, m.codes), case, detail("participant order 1", &format!("participant order {o:?}")));
                    }
                }
            }
        }
    });
    Report {
        prop: "C08",
        level: "exploration",
        stats,
        evaluations_key: "comparisons",
        nontrivial_key: "nontrivial_comparisons",
        rule: "for every generated honest history (F-seq and F-stream scripts, random schedules) the distinct final data of all peers plus up to three intermediate data are merged at an observer from nothing in all permutations (up to 4 data) or 16 random orders, in three random groupings through a second observer, and in four random orders at a participating peer on top of its own data; results are compared with the first order: equal knowledge (executed/failed call and canon ids with multiplicity and content), equal traces up to senders for stream-free scripts, equal state multisets up to generations and fold layout otherwise. Distinct non-trivial = distinct (result, result, order) triples whose knowledge is non-empty".into(),
        assumptions: vec![
            "merging is observed through real interpreter runs at peers holding real keys; the observer executes nothing but its own ap/match instructions".into(),
            "with streams, only the multiset of states (not their order) is compared, as the statement allows fold iterations to be reordered".into(),
        ],
    }
}

fn permutations(n: usize, out: &mut Vec<Vec<usize>>) {
    fn rec(cur: &mut Vec<usize>, used: &mut Vec<bool>, n: usize, out: &mut Vec<Vec<usize>>) {
        if cur.len() == n {
            out.push(cur.clone());
            return;
        }
        for i in 0..n {
            if !used[i] {
                used[i] = true;
                cur.push(i);
                rec(cur, used, n, out);
                cur.pop();
                used[i] = false;
            }
        }
    }
    rec(&mut vec![], &mut vec![false; n], n, out);
}
