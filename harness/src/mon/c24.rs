//! C24: lens selection agrees with plain JSON selection.
//!
//! Differential through the interpreter: one peer defines scalars `x` (the value), `i`, `k` (scalars
//! used as index / key) from service results, optionally fills a stream and a stream map and
//! canonicalises them, then for every lens runs
//! `(xor (call me ("obs" "ok<n>") [<base><lens>]) (call me ("obs" "err<n>") [:error:.$.error_code :error:.$.message]))`.
//! The expectation is plain navigation over `serde_json::Value` written here.
//!
//! Syntax facts modelled (lambda lexer / grammar): a field accessor is `.name` with name made of
//! alphanumerics, `_`, `-` and NOT starting with an ASCII digit (`.0` lexes as a number token, which
//! the grammar accepts only inside brackets, so digit-leading keys are reachable only through `[k]`);
//! `[n]`, `.[n]` are the same; a trailing `!` is accepted and ignored; the functor is the bare
//! `.length` only (`x.$.length` and `x.$.a.length` are FIELD accesses).
use crate::invoke::*;
use crate::keys::Peer;
use crate::report::*;
use crate::rng::{fnv, Rng};
use crate::sim::standard_peers;
use serde_json::{json, Map, Value};
use std::collections::BTreeMap;

// ---------------------------------------------------------------- lenses and their plain-JSON meaning
#[derive(Clone, Debug, PartialEq)]
enum Acc {
    Field(String),
    Idx(u32),
    ByI,
    ByK,
}

#[derive(Clone, Copy, Debug, PartialEq)]
enum Base {
    Scalar,
    Canon,
    CanonMap,
}

impl Base {
    fn var(self) -> &'static str {
        match self {
            Base::Scalar => "x",
            Base::Canon => "#can",
            Base::CanonMap => "#%cmap",
        }
    }
    fn name(self) -> &'static str {
        match self {
            Base::Scalar => "scalar",
            Base::Canon => "canon-stream",
            Base::CanonMap => "canon-map",
        }
    }
}

struct Lens {
    base: Base,
    /// None = the `.length` functor
    path: Option<Vec<Acc>>,
    /// the lens text glued to the variable, e.g. `.$.a.[0]`
    text: String,
    /// observe through `(ap <lens> t) (call .. [t])` instead of directly in the call argument
    via_ap: bool,
}

/// `style`: bit j set => accessor j (an index) is written without the optional dot; bit 63 => trailing `!`.
fn lens_text(path: &Option<Vec<Acc>>, style: u64) -> String {
    let Some(p) = path else { return ".length".into() };
    let mut s = String::from(".$");
    for (j, a) in p.iter().enumerate() {
        let dot = if style >> j & 1 == 1 { "" } else { "." };
        match a {
            Acc::Field(f) => s.push_str(&format!(".{f}")),
            Acc::Idx(n) => s.push_str(&format!("{dot}[{n}]")),
            Acc::ByI => s.push_str(&format!("{dot}[i]")),
            Acc::ByK => s.push_str(&format!("{dot}[k]")),
        }
    }
    if style >> 63 == 1 {
        s.push('!');
    }
    s
}

fn field_expressible(k: &str) -> bool {
    !k.is_empty() && !k.as_bytes()[0].is_ascii_digit() && k.chars().all(|c| c.is_alphanumeric() || c == '_' || c == '-')
}

type Nav<'a> = Result<&'a Value, &'static str>;

fn by_field<'a>(v: &'a Value, f: &str) -> Nav<'a> {
    v.as_object().ok_or("field-of-non-object")?.get(f).ok_or("no-such-field")
}
fn by_index(v: &Value, n: u64) -> Nav<'_> {
    let n = usize::try_from(n).map_err(|_| "index-out-of-range")?;
    v.as_array().ok_or("index-of-non-array")?.get(n).ok_or("index-out-of-range")
}
/// A scalar used as accessor: a string is a key, a non-negative integer fitting u32 is an index.
fn by_scalar<'a>(v: &'a Value, s: &Value) -> Nav<'a> {
    match s {
        Value::String(f) => by_field(v, f),
        Value::Number(n) => match n.as_u64() {
            Some(n) if n <= u32::MAX as u64 => by_index(v, n),
            _ => Err("scalar-index-not-u32"),
        },
        _ => Err("scalar-accessor-of-wrong-type"),
    }
}
fn step<'a>(v: &'a Value, a: &Acc, i: &Value, k: &Value) -> Nav<'a> {
    match a {
        Acc::Field(f) => by_field(v, f),
        Acc::Idx(n) => by_index(v, *n as u64),
        Acc::ByI => by_scalar(v, i),
        Acc::ByK => by_scalar(v, k),
    }
}
fn navigate(root: &Value, path: &[Acc], i: &Value, k: &Value) -> Result<Value, &'static str> {
    let mut cur = root;
    for a in path {
        cur = step(cur, a, i, k)?;
    }
    Ok(cur.clone())
}

// ---------------------------------------------------------------- a case
/// `#%cmap.$.nokey.[0].f`: nothing can be selected inside the group of a key that was never inserted, so the statement
/// demands a catchable error. The unchanged interpreter answers `[]` and drops the rest of the path (pinned by the
/// upstream test `canon_map_non_existing_index_and_element_tetraplet_check`); this is reported under the signature
/// `selected-where-impossible@canon-map:path-into-missing-key`. Set to false to only count it.
const FLAG_PATH_INTO_MISSING_KEY: bool = true;

#[derive(Clone, Debug, PartialEq)]
enum MKey {
    S(String),
    N(i128),
}

struct Case {
    v: Value,
    i: Value,
    k: Value,
    /// with the stream / stream map sections (canon bases available)
    canon: bool,
    /// (ap argument text, the value it appends)
    stream: Vec<(String, Value)>,
    /// (key text, value text, key, value)
    map: Vec<(String, String, MKey, Value)>,
    lenses: Vec<Lens>,
    par: bool,
}

enum Exp {
    Val(Value),
    Imp(&'static str),
    /// the statement is silent: any of these values, or a catchable error, is accepted and counted
    Silent(&'static str, Vec<Value>),
}

impl Case {
    fn expect(&self, l: &Lens) -> Exp {
        let from = |root: &Value, path: &Option<Vec<Acc>>| match path {
            None => match root.as_array() {
                Some(a) => Exp::Val(json!(a.len())),
                None => Exp::Imp("length-of-non-array"),
            },
            Some(p) => match navigate(root, p, &self.i, &self.k) {
                Ok(v) => Exp::Val(v),
                Err(why) => Exp::Imp(why),
            },
        };
        match l.base {
            Base::Scalar => from(&self.v, &l.path),
            // a canonical stream is the JSON array of its elements in order
            Base::Canon => from(&Value::Array(self.stream.iter().map(|e| e.1.clone()).collect()), &l.path),
            Base::CanonMap => {
                let Some(p) = &l.path else {
                    // not covered by the statement: number of pairs (what the sources say) or of distinct keys
                    let mut keys: Vec<&MKey> = vec![];
                    self.map.iter().for_each(|e| if !keys.contains(&&e.2) { keys.push(&e.2) });
                    return Exp::Silent("map-length", vec![json!(self.map.len()), json!(keys.len())]);
                };
                let key = match (&p[0], &self.i, &self.k) {
                    (Acc::Field(f), ..) => MKey::S(f.clone()),
                    (Acc::Idx(n), ..) => MKey::N(*n as i128),
                    (Acc::ByI, s, _) | (Acc::ByK, _, s) => match s {
                        Value::String(s) => MKey::S(s.clone()),
                        Value::Number(n) if n.is_i64() || n.is_u64() => MKey::N(n.as_i64().map(|x| x as i128).unwrap_or_else(|| n.as_u64().unwrap() as i128)),
                        _ => return Exp::Imp("map-key-of-wrong-type"),
                    },
                };
                // the key group: all values inserted under the key, in insertion order (docs/AIR.md: index access returns a canon stream)
                let group: Vec<Value> = self.map.iter().filter(|e| e.2 == key).map(|e| e.3.clone()).collect();
                match (group.is_empty(), p.len() > 1) {
                    (true, false) => Exp::Silent("map-missing-key", vec![json!([])]),
                    // whether a missing key is "no group" or "an empty group", nothing can be selected inside it
                    (true, true) if FLAG_PATH_INTO_MISSING_KEY => Exp::Imp("path-into-missing-key"),
                    (true, true) => Exp::Silent("map-path-into-missing-key", vec![json!([])]),
                    (false, _) => from(&Value::Array(group), &Some(p[1..].to_vec())),
                }
            }
        }
    }

    fn script(&self, me: &str) -> String {
        let call = |svc: &str, f: &str, args: &str, out: &str| format!("(call \"{me}\" (\"{svc}\" \"{f}\") [{args}]{out})");
        let mut s = String::new();
        let mut close = 0;
        let mut pre = |s: &mut String, ins: String| {
            s.push_str(&format!("(seq {ins} "));
            close += 1;
        };
        pre(&mut s, call("svc", "val", "", " x"));
        pre(&mut s, call("svc", "idx", "", " i"));
        pre(&mut s, call("svc", "key", "", " k"));
        if self.canon {
            for (arg, _) in &self.stream {
                pre(&mut s, format!("(ap {arg} $s)"));
            }
            pre(&mut s, format!("(canon \"{me}\" $s #can)"));
            for (key, val, ..) in &self.map {
                pre(&mut s, format!("(ap ({key} {val}) %m)"));
            }
            pre(&mut s, format!("(canon \"{me}\" %m #%cmap)"));
        }
        let comb = if self.par { "par" } else { "seq" };
        for (n, l) in self.lenses.iter().enumerate() {
            let arg = format!("{}{}", l.base.var(), l.text);
            let ok = if l.via_ap { format!("(seq (ap {arg} t{n}) {})", call("obs", &format!("ok{n}"), &format!("t{n}"), "")) } else { call("obs", &format!("ok{n}"), &arg, "") };
            let obs = format!("(xor {ok} {})", call("obs", &format!("err{n}"), ":error:.$.error_code :error:.$.message", ""));
            if n + 1 < self.lenses.len() {
                s.push_str(&format!("({comb} {obs} "));
                close += 1;
            } else {
                s.push_str(&obs);
            }
        }
        s.push_str(&")".repeat(close));
        s
    }
}

// ---------------------------------------------------------------- the small exhaustive domain
const SCALARS: usize = 4;
fn small_scalar(n: usize) -> Value {
    [json!(null), json!(true), json!(1), json!("s")][n].clone()
}
/// number of values of depth <= d over keys {a,b}, arrays of length <= 2, 4 scalars
fn small_count(d: u32) -> usize {
    if d == 0 {
        return SCALARS;
    }
    let c = small_count(d - 1);
    SCALARS + (1 + c + c * c) + (c + 1) * (c + 1)
}
fn small_value(d: u32, mut n: usize) -> Value {
    if n < SCALARS {
        return small_scalar(n);
    }
    n -= SCALARS;
    let c = small_count(d - 1);
    let sub = |n| small_value(d - 1, n);
    if n == 0 {
        return json!([]);
    }
    n -= 1;
    if n < c {
        return json!([sub(n)]);
    }
    n -= c;
    if n < c * c {
        return json!([sub(n / c), sub(n % c)]);
    }
    n -= c * c;
    let mut m = Map::new();
    for (key, sel) in [("a", n / (c + 1)), ("b", n % (c + 1))] {
        if sel > 0 {
            m.insert(key.into(), sub(sel - 1));
        }
    }
    Value::Object(m)
}
const SMALL_ACCS: usize = 7;
fn small_acc(n: usize) -> Acc {
    [Acc::Field("a".into()), Acc::Field("b".into()), Acc::Idx(0), Acc::Idx(1), Acc::Idx(2), Acc::ByI, Acc::ByK][n].clone()
}
/// lens 0 is `.length`, then all paths of length 1, 2, 3
const SMALL_LENSES: usize = 1 + 7 + 49 + 343;
fn small_lens(mut n: usize) -> Option<Vec<Acc>> {
    if n == 0 {
        return None;
    }
    n -= 1;
    let mut len = 1;
    while n >= SMALL_ACCS.pow(len) {
        n -= SMALL_ACCS.pow(len);
        len += 1;
    }
    Some((0..len).map(|j| small_acc(n / SMALL_ACCS.pow(j) % SMALL_ACCS)).collect())
}
fn small_i() -> Vec<Value> {
    vec![json!(0), json!(1), json!(5), json!(-1), json!(1.5), json!("a"), json!(true), json!(null), json!(4294967296u64)]
}
fn small_k() -> Vec<Value> {
    vec![json!("a"), json!("b"), json!("zz"), json!(0)]
}
/// lenses 0..SHORT are `.length` and the paths of length <= 2 (the ones that can succeed on values of depth <= 2)
const SHORT: usize = 1 + 7 + 49;
const BLOCK: (usize, usize) = (12, 8);
fn small_triples() -> usize {
    small_count(2) * small_i().len() * small_k().len()
}
/// One (value, i, k) of the small domain with 12 short and 8 long lenses. The stride is coprime with the number of
/// triples, so the cases of one run are distinct domain points; the seed rotates the start and the lens windows.
fn small_case(seed: u64, case: u64) -> Case {
    let r = seed.wrapping_mul(7919).wrapping_add(case) % small_triples() as u64;
    let mut t = (r * 1_000_003 % small_triples() as u64) as usize;
    let mut take = |n: usize| {
        let x = t % n;
        t /= n;
        x
    };
    let (ki, ii, r) = (take(small_k().len()), take(small_i().len()), r as usize);
    let short = (0..BLOCK.0).map(|j| (r * BLOCK.0 + j) % SHORT);
    let long = (0..BLOCK.1).map(|j| SHORT + (r * BLOCK.1 + j) % (SMALL_LENSES - SHORT));
    let lenses = short
        .chain(long)
        .map(|n| {
            let path = small_lens(n);
            Lens { base: Base::Scalar, text: lens_text(&path, 0), path, via_ap: false }
        })
        .collect();
    Case { v: small_value(2, t), i: small_i()[ii].clone(), k: small_k()[ki].clone(), canon: false, stream: vec![], map: vec![], lenses, par: false }
}

// ---------------------------------------------------------------- random cases beyond the small domain
/// Keys: identifiers with digits / underscores / dashes and two non-ASCII ones (the lexers use the Unicode
/// `is_alphanumeric`, so they can be written in a lens); "0", "12", "1a", "" cannot be written as `.name` and are
/// reachable only through `[k]`; "length" is an ordinary field name inside a path.
const KEYS: &[&str] = &["a", "b", "k1", "k2", "length", "A9", "_x", "a-b", "-d", "x_1", "ключ", "é1", "0", "12", "1a", ""];

fn rand_scalar(rng: &mut Rng) -> Value {
    match rng.below(8) {
        0 => json!(null),
        1 => json!(rng.chance(1, 2)),
        2 | 3 => json!(rng.below(12) as i64 - 2),
        4 => json!(rng.below(6) as f64 + 0.5),
        5 => json!(*rng.pick(&[4294967295u64, 4294967296, 1 << 40])),
        _ => json!(*rng.pick(&["s", "a", "k1", "0", "", "text with spaces", "é"])),
    }
}
fn rand_value(rng: &mut Rng, depth: usize) -> Value {
    if depth == 0 || rng.chance(1, 4) {
        return rand_scalar(rng);
    }
    if rng.chance(1, 2) {
        Value::Array((0..rng.below(6)).map(|_| rand_value(rng, depth - 1)).collect())
    } else {
        let mut m = Map::new();
        for _ in 0..rng.below(5) {
            m.insert(rng.pick(KEYS).to_string(), rand_value(rng, depth - 1));
        }
        Value::Object(m)
    }
}
fn all_keys(v: &Value, out: &mut Vec<String>) {
    match v {
        Value::Array(a) => a.iter().for_each(|e| all_keys(e, out)),
        Value::Object(m) => m.iter().for_each(|(k, e)| {
            out.push(k.clone());
            all_keys(e, out)
        }),
        _ => {}
    }
}
fn wild_acc(rng: &mut Rng) -> Acc {
    match rng.below(5) {
        0 | 1 => Acc::Field(loop {
            let k = *rng.pick(KEYS);
            if field_expressible(k) {
                break k.to_string();
            }
        }),
        2 => Acc::Idx(if rng.chance(1, 10) { u32::MAX } else { rng.below(7) as u32 }),
        3 => Acc::ByI,
        _ => Acc::ByK,
    }
}
/// An accessor that plain navigation can follow from `v` (when there is one), using `[i]` / `[k]` where they fit.
fn guided_acc(rng: &mut Rng, v: &Value, i: &Value, k: &Value) -> Acc {
    match v {
        Value::Object(m) if !m.is_empty() => {
            let key = m.keys().nth(rng.below(m.len())).unwrap();
            if k.as_str() == Some(key.as_str()) && rng.chance(1, 2) || !field_expressible(key) {
                Acc::ByK
            } else {
                Acc::Field(key.clone())
            }
        }
        Value::Array(a) if !a.is_empty() => {
            let n = rng.below(a.len());
            if rng.chance(1, 3) && i.as_u64().map_or(false, |x| (x as usize) < a.len()) {
                Acc::ByI
            } else {
                Acc::Idx(n as u32)
            }
        }
        _ => wild_acc(rng),
    }
}
/// A path of up to `max` accessors: mostly follows what plain navigation can follow and mostly stops at a leaf,
/// so that about half of the lenses select something; the rest goes wrong at some depth in some way.
fn rand_path(rng: &mut Rng, root: &Value, i: &Value, k: &Value, max: usize) -> Vec<Acc> {
    let mut cur = Some(root);
    let mut p = vec![];
    for _ in 0..rng.range(1, max) {
        let leaf = cur.map_or(true, |c| c.as_array().map_or(false, |a| a.is_empty()) || c.as_object().map_or(false, |m| m.is_empty()) || !(c.is_array() || c.is_object()));
        if !p.is_empty() && leaf && rng.chance(4, 5) {
            break;
        }
        let a = match cur {
            Some(c) if rng.chance(9, 10) => guided_acc(rng, c, i, k),
            _ => wild_acc(rng),
        };
        cur = cur.and_then(|c| step(c, &a, i, k).ok());
        p.push(a);
    }
    p
}
fn rand_style(rng: &mut Rng) -> u64 {
    (if rng.chance(1, 4) { rng.next_u64() & 0xff } else { 0 }) | (rng.chance(1, 12) as u64) << 63
}
/// an `ap` argument (literal, scalar, scalar with a lens that plain navigation can follow) and its value
fn rand_ap_arg(rng: &mut Rng, c: &Case) -> (String, Value) {
    match rng.below(8) {
        0 => ("\"lit\"".into(), json!("lit")),
        1 => ("7".into(), json!(7)),
        2 => ("[]".into(), json!([])),
        3 => ("i".into(), c.i.clone()),
        4 => ("k".into(), c.k.clone()),
        5 => ("x".into(), c.v.clone()),
        _ => {
            let p = rand_path(rng, &c.v, &c.i, &c.k, 3);
            match navigate(&c.v, &p, &c.i, &c.k) {
                Ok(v) => (format!("x{}", lens_text(&Some(p), 0)), v),
                Err(_) => ("x".into(), c.v.clone()),
            }
        }
    }
}
fn rand_case(rng: &mut Rng) -> Case {
    let depth = rng.range(1, 5);
    let v = if rng.chance(1, 8) { rand_scalar(rng) } else { rand_value(rng, depth) };
    let mut keys = vec![];
    all_keys(&v, &mut keys);
    let i = if rng.chance(2, 3) { json!(rng.below(5)) } else { rng.pick(&[json!(5), json!(-1), json!(1.5), json!("a"), json!(true), json!(null), json!(4294967296u64), json!(4294967295u64), json!([0]), json!({"a": 0}), json!("0")]).clone() };
    let k = if !keys.is_empty() && rng.chance(2, 3) {
        json!(rng.pick(&keys))
    } else if rng.chance(1, 2) {
        json!(rng.pick(KEYS))
    } else {
        rng.pick(&[json!("zz"), json!(0), json!(1), json!(null), json!(false), json!(2.5), json!(-3), json!(["a"])]).clone()
    };
    let mut c = Case { v, i, k, canon: rng.chance(1, 2), stream: vec![], map: vec![], lenses: vec![], par: rng.chance(1, 4) };
    if c.canon {
        for _ in 0..rng.below(4) {
            let e = rand_ap_arg(rng, &c);
            c.stream.push(e);
        }
        for _ in 0..rng.below(5) {
            // keys: string literals, integer literals, the scalar k when it is a legal key
            let (kt, key) = match rng.below(6) {
                0 | 1 => ("\"k1\"".to_string(), MKey::S("k1".into())),
                2 => ("\"k2\"".to_string(), MKey::S("k2".into())),
                3 => ("1".to_string(), MKey::N(1)),
                4 => ("0".to_string(), MKey::N(0)),
                _ => match &c.k {
                    Value::String(s) => ("k".to_string(), MKey::S(s.clone())),
                    Value::Number(n) if n.is_i64() => ("k".to_string(), MKey::N(n.as_i64().unwrap() as i128)),
                    _ => ("\"a\"".to_string(), MKey::S("a".into())),
                },
            };
            let (vt, val) = rand_ap_arg(rng, &c);
            c.map.push((kt, vt, key, val));
        }
    }
    let stream_json = Value::Array(c.stream.iter().map(|e| e.1.clone()).collect());
    for _ in 0..rng.range(5, 20) {
        let base = if !c.canon || rng.chance(1, 3) { Base::Scalar } else if rng.chance(1, 2) { Base::Canon } else { Base::CanonMap };
        let path = match base {
            _ if rng.chance(1, 10) => None,
            Base::Scalar => Some(rand_path(rng, &c.v, &c.i, &c.k, 6)),
            Base::Canon => Some(rand_path(rng, &stream_json, &c.i, &c.k, 6)),
            Base::CanonMap => {
                // first the key (present, absent, through a scalar), then a path into its group
                let first = match rng.below(8) {
                    0..=3 if !c.map.is_empty() => match &rng.pick(&c.map).2 {
                        MKey::S(s) if c.k.as_str() == Some(s.as_str()) && rng.chance(1, 2) => Acc::ByK,
                        MKey::S(s) if field_expressible(s) => Acc::Field(s.clone()),
                        MKey::N(n) if *n >= 0 => Acc::Idx(*n as u32),
                        _ => Acc::ByK,
                    },
                    4 => Acc::ByK,
                    5 => Acc::ByI,
                    6 => Acc::Idx(rng.below(3) as u32),
                    _ => Acc::Field(rng.pick(&["k1", "k2", "a", "nokey", "key", "value"]).to_string()),
                };
                let mut p = vec![first];
                if rng.chance(2, 3) {
                    let group = match c.expect(&Lens { base, path: Some(p.clone()), text: String::new(), via_ap: false }) {
                        Exp::Val(g) => g,
                        _ => json!([]),
                    };
                    p.extend(rand_path(rng, &group, &c.i, &c.k, 5));
                }
                Some(p)
            }
        };
        let style = rand_style(rng);
        c.lenses.push(Lens { base, text: lens_text(&path, style), path, via_ap: rng.chance(1, 4) });
    }
    c
}

// ---------------------------------------------------------------- driving the interpreter
/// Run the script to completion on one peer, answering `svc` calls from `answers` and `obs` calls with null.
/// Returns the observation calls (function name -> arguments) or the failing (ret_code, message).
fn drive(air: &str, me: &Peer, pid: &str, answers: &BTreeMap<&str, String>, max_runs: usize, st: &mut Stats) -> Result<BTreeMap<String, Vec<Value>>, (i64, String)> {
    let mut input = RunInput::new(air, me, me, pid);
    let mut obs = BTreeMap::new();
    for _ in 0..max_runs {
        let out = invoke(&input);
        st.inc("interpreter_runs", 1);
        if out.ret_code != 0 {
            return Err((out.ret_code, out.error_message));
        }
        let reqs = out.requests.map_err(|e| (-1, e))?;
        if reqs.is_empty() {
            return Ok(obs);
        }
        let mut cr = BTreeMap::new();
        for (id, q) in reqs {
            let res = if q.service == "svc" { answers.get(q.function.as_str()).cloned().unwrap_or("null".into()) } else { "null".into() };
            if q.service == "obs" && obs.insert(q.function.clone(), q.args).is_some() {
                return Err((-2, format!("observation {} requested twice", q.function)));
            }
            cr.insert(id.to_string(), (0, res));
        }
        input.prev = out.data;
        input.call_results = CallResultsIn::Map(cr);
    }
    Err((-3, "script did not finish".into()))
}

pub fn run(cfg: &Cfg) -> Report {
    let (n_small, n_rand) = (cfg.scale(300, 10_000), cfg.scale(750, 25_000));
    let t = crate::errcodes::table();
    let (code_path, code_len) = (t.code("Catch::LambdaApplierError"), t.code("Catch::LengthFunctorAppliedToNotArray"));
    let mut stats = par_cases(cfg, n_small + n_rand, |case, st| {
        let small = case < n_small;
        let c = if small { small_case(cfg.seed, case) } else { rand_case(&mut Rng::derive(cfg.seed, 0xc24, case)) };
        let me = &standard_peers(1)[0];
        let air = c.script(&me.id);
        let answers: BTreeMap<&str, String> = [("val", c.v.to_string()), ("idx", c.i.to_string()), ("key", c.k.to_string())].into_iter().collect();
        let detail = |extra: Value| json!({"value": c.v, "i": c.i, "k": c.k, "stream": c.stream.iter().map(|e| &e.1).collect::<Vec<_>>(), "map": c.map.iter().map(|e| json!([e.0, e.3])).collect::<Vec<_>>(), "air": air, "witness": extra});
        st.inc("cases", 1);
        let obs = match drive(&air, me, &format!("c24-{}-{case}", cfg.seed), &answers, 3 + 2 * c.lenses.len() + 4, st) {
            Ok(o) => o,
            Err((code, msg)) if code < 0 && code != PANIC_CODE => return st.inconclusive.push(format!("case {case}: harness could not drive the script: {msg}")),
            Err((code, msg)) => {
                let sig = if code == PANIC_CODE { format!("panic@{}", msg.split(" :: ").next().unwrap_or("?").trim_start_matches("PANIC at ")) } else { format!("interpreter-error@{}", t.name(code)) };
                return st.violation("C24", &sig, &format!("a script of lens observations wrapped in xor ended with ret_code {code}: {}", crate::proj::trunc(&msg, 300)), case, detail(json!({"ret_code": code, "error": msg})));
            }
        };
        for (n, l) in c.lenses.iter().enumerate() {
            let exp = c.expect(l);
            let (ok, err) = (obs.get(&format!("ok{n}")), obs.get(&format!("err{n}")));
            let lens = format!("{}{}", l.base.var(), l.text);
            let uses = |a: &Acc| l.path.as_ref().map_or(false, |p| p.contains(a));
            let key = format!("{}|{}|{}|{}|{:?}{:?}", c.v, lens, if uses(&Acc::ByI) { c.i.to_string() } else { String::new() }, if uses(&Acc::ByK) { c.k.to_string() } else { String::new() }, if l.base == Base::Canon { Some(&c.stream) } else { None }, if l.base == Base::CanonMap { Some(&c.map) } else { None });
            let nontrivial = l.base != Base::Scalar || uses(&Acc::ByI) || uses(&Acc::ByK) || l.path.as_ref().map_or(false, |p| p.len() >= 2);
            st.inc("pairs_judged", 1);
            st.inc(&format!("pairs[{}]", l.base.name()), 1);
            st.seen("distinct_pairs", fnv(key.as_bytes()));
            if nontrivial {
                st.seen("nontrivial_pairs", fnv(key.as_bytes()));
            }
            if small {
                st.inc("small_domain_pairs_covered", 1);
            }
            if l.path.is_none() {
                st.inc("length_functor_pairs", 1);
            }
            let exp_json = match &exp {
                Exp::Val(v) => json!({"selects": v}),
                Exp::Imp(why) => json!({"impossible": why}),
                Exp::Silent(why, vals) => json!({"statement_silent": why, "accepted_values": vals}),
            };
            let obs_json = json!({"ok": ok, "err": err});
            let wit = json!({"value": if l.base == Base::Scalar { c.v.clone() } else { json!({"stream": c.stream.iter().map(|e| &e.1).collect::<Vec<_>>(), "map": c.map.iter().map(|e| json!([e.0, e.3])).collect::<Vec<_>>()}) }, "i": c.i, "k": c.k, "lens": lens, "expected": exp_json, "observed": obs_json});
            // one sample per kind per worker: a selection, a refusal, a canon base
            let kind = match (&exp, l.base) {
                (_, Base::Canon | Base::CanonMap) => "canon",
                (Exp::Val(_), _) => "possible",
                _ => "impossible",
            };
            if nontrivial && !small && st.get(&format!("sampled[{kind}]")) == 0 {
                st.inc(&format!("sampled[{kind}]"), 1);
                st.sample(wit.clone());
            }
            let part = if small { "small-domain" } else { "random" };
            let tally = |st: &mut Stats, outcome: &str| {
                st.inc(outcome, 1);
                st.inc(&format!("{outcome}[{part}]"), 1);
            };
            let flag = |st: &mut Stats, kind: &str, why: &str| {
                st.violation("C24", &format!("{kind}@{}:{why}", l.base.name()), &format!("lens {lens} on {}: expected {exp_json}, observed {obs_json}", crate::proj::trunc(&wit["value"].to_string(), 200)), case, detail(wit.clone()));
            };
            // a catchable error code, counted by name
            let catchable = |st: &mut Stats, e: &Vec<Value>, expected_code: i64| -> bool {
                let code = e.first().and_then(|x| x.as_i64()).unwrap_or(-1);
                if classify(code) != CodeClass::Catchable {
                    return false;
                }
                st.inc(&format!("error_code[{}]", t.name(code)), 1);
                if code != expected_code {
                    st.inc(&format!("other_catchable_code_than_expected[{}]", t.name(code)), 1);
                }
                if e.get(1).map_or(false, |m| m.is_string()) {
                    st.inc("error_message_is_string", 1);
                }
                true
            };
            let exp_code = if l.path.is_none() { code_len } else { code_path };
            match (&exp, ok, err) {
                (_, Some(_), Some(_)) | (_, None, None) => flag(st, "observation-missing-or-double", "xor"),
                (Exp::Val(v), Some(a), None) => {
                    tally(st, "possible");
                    if a.len() != 1 || a[0] != *v {
                        flag(st, "selected-value-differs", "value");
                    }
                }
                (Exp::Val(_), None, Some(_)) => {
                    tally(st, "possible");
                    flag(st, "failed-where-navigable", "error");
                }
                (Exp::Imp(why), None, Some(e)) => {
                    tally(st, "impossible");
                    st.inc(&format!("impossible[{why}]"), 1);
                    if !catchable(st, e, exp_code) {
                        flag(st, "error-code-not-catchable", why);
                    }
                }
                (Exp::Imp(why), Some(_), None) => {
                    tally(st, "impossible");
                    flag(st, "selected-where-impossible", why);
                }
                (Exp::Silent(why, vals), ok, err) => {
                    st.inc(&format!("statement_silent[{why}]"), 1);
                    match (ok, err) {
                        (Some(a), _) if a.len() == 1 && vals.contains(&a[0]) => st.inc(&format!("statement_silent[{why}]=value#{}", vals.iter().position(|v| *v == a[0]).unwrap()), 1),
                        (Some(_), _) => flag(st, "selected-value-differs", why),
                        (None, Some(e)) if catchable(st, e, exp_code) => st.inc(&format!("statement_silent[{why}]=catchable-error"), 1),
                        _ => flag(st, "error-code-not-catchable", why),
                    }
                }
            }
        }
    });
    stats.label("small_domain", &format!("{} (value, i, k, lens) points = {} values of depth<=2 x 9 i x 4 k x {} lenses; a run covers small_domain_pairs_covered distinct points", small_triples() * SMALL_LENSES, small_count(2), SMALL_LENSES));
    crate::sanitize::passes_for("C24", cfg, &mut stats);
    Report {
        prop: "C24",
        level: "exploration",
        stats,
        evaluations_key: "pairs_judged",
        nontrivial_key: "nontrivial_pairs",
        rule: "a case is a JSON value x, scalars i and k, optionally a stream and a stream map filled by ap and canonicalised, and 5-20 lenses; every lens is evaluated by the interpreter inside (xor (call ok [<lens>]) (call err [:error:.$.error_code ..])) (a quarter through ap into a scalar first, a quarter of the cases with par instead of seq) and by plain serde_json navigation; first a seed-rotated sample of the exhaustive small domain (values of depth<=2 over keys a,b, arrays<=2, 4 scalars; paths<=3 over .a .b [0] [1] [2] [i] [k] and .length; 9 i, 4 k), then random values (depth<=5, arrays<=5, ASCII keys incl. digit-leading ones) and guided/wild paths<=6 on x, #can and #%cmap; an evaluation is one (value, lens) pair; non-trivial = path of length>=2, or an index/key taken from a scalar, or a canon base; distinct by value, lens and the scalars used".into(),
        assumptions: vec![
            "a canonical stream is navigated as the JSON array of its elements; the key group of a canon map is the array of all values inserted under the key in order (docs/AIR.md: index access returns a canon stream)".into(),
            "not demanded by the statement, only counted: the value of .length on a canon map (pairs or distinct keys) and the result of selecting a missing key of a canon map with no further path ([] or a catchable error)".into(),
            "any catchable code (10000..=19999) is accepted for an impossible navigation; codes are counted by name".into(),
            "a path continuing into the group of a key that was never inserted in a canon map is impossible under either reading of a missing key (FLAG_PATH_INTO_MISSING_KEY)".into(),
        ],
    }
}
