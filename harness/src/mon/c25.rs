//! C25: content ids are canonical; verification accepts exactly the matching (id, value) pairs.
//! Also hosts the JSON value generator and text writer shared with C26.
use crate::invoke::guarded;
use crate::oracle::cidv::{blake3_256, cid_of_bytes, sha2_256};
use crate::oracle::cidx::{cid_bytes, cid_text, cidv0, multibase};
use crate::report::*;
use crate::rng::{fnv, Rng};
use air_interpreter_cid::{raw_value_to_json_cid, value_to_json_cid, verify_raw_value, verify_value, CidVerificationError, CID};
use air_interpreter_value::{JValue, JsonString, Map};
use serde_json::{json, Number, Value};

// ---------------------------------------------------------------- generator (shared with C26)

/// A logical JSON value, independent of both value types under comparison. Object entries keep the
/// generation order; C25 generates unique keys, C26 may generate duplicates (last one wins).
#[derive(Clone, Debug, PartialEq)]
pub enum G {
    Null,
    Bool(bool),
    Num(Number),
    Str(String),
    Arr(Vec<G>),
    Obj(Vec<(String, G)>),
}

pub const KEYS: &[&str] = &[
    "a", "b", "c", "key", "k2", "", "A", "aa", "0", "1", "01", "é", "ключ", "😀", "a\"b", "a\\b", "a/b", "~", "~1", "\n", "\u{0}", "\u{7f}", "\u{2028}", " ",
];
const CHARS: &[char] = &[
    'a', 'Z', '0', ' ', '"', '\\', '/', '\u{8}', '\u{c}', '\n', '\r', '\t', '\u{0}', '\u{1f}', '\u{7f}', '\u{80}', 'é', 'ß', '中', '\u{2028}', '\u{d7ff}', '\u{e000}',
    '\u{fffd}', '\u{ffff}', '😀', '\u{10000}', '\u{10ffff}',
];
const BOUNDARY_I: &[i64] = &[
    i64::MIN, i64::MIN + 1, -9007199254740993, -9007199254740992, -2147483649, -2147483648, -1, 0, 1, 2147483647, 2147483648, 4294967295, 4294967296,
    9007199254740992, 9007199254740993, i64::MAX - 1, i64::MAX,
];
const BOUNDARY_U: &[u64] = &[i64::MAX as u64 + 1, i64::MAX as u64 + 2, 10000000000000000000, u64::MAX - 1, u64::MAX];
const BOUNDARY_F: &[f64] = &[
    0.0, -0.0, 1.0, -1.0, 0.5, 0.1, 0.30000000000000004, 1e-7, 1e15, 1e16, 1e21, 1e22, 1.5e300, 1e308, f64::MAX, f64::MIN, f64::MIN_POSITIVE, 5e-324,
    2.225073858507201e-308, 9007199254740993.0, 9223372036854775808.0, -9223372036854775808.0, 18446744073709551616.0, 123456.789e3, f64::EPSILON,
];

pub fn fnum(x: f64) -> G {
    G::Num(Number::from_f64(x).expect("finite"))
}

pub fn gen_number(r: &mut Rng) -> Number {
    let f = |x: f64| Number::from_f64(x).expect("finite");
    match r.weighted(&[4, 3, 2, 1, 1, 3, 2, 1]) {
        0 => Number::from(r.below(21) as i64 - 10),
        1 => Number::from(*r.pick(BOUNDARY_I)),
        2 => Number::from(*r.pick(BOUNDARY_U)),
        3 => Number::from(r.next_u64() as i64),
        4 => Number::from(r.next_u64()),
        5 => f(*r.pick(BOUNDARY_F)),
        6 => f((r.below(4001) as f64 - 2000.0) / 8.0),
        _ => loop {
            let x = f64::from_bits(r.next_u64());
            if x.is_finite() {
                break f(x);
            }
        },
    }
}

pub fn gen_string(r: &mut Rng) -> String {
    if r.chance(1, 3) {
        return r.pick(&["", "test", "a", "null", "1", "true", "{\"a\":1}", "\\u0041"]).to_string();
    }
    (0..r.below(7)).map(|_| *r.pick(CHARS)).collect()
}

/// `depth` levels of containers at most; `dups` allows repeated keys inside one object.
pub fn gen_value(r: &mut Rng, depth: usize, dups: bool) -> G {
    if depth == 0 || r.chance(6 - depth.min(4) as u32, 7) {
        return match r.weighted(&[1, 2, 6, 5]) {
            0 => G::Null,
            1 => G::Bool(r.chance(1, 2)),
            2 => G::Num(gen_number(r)),
            _ => G::Str(gen_string(r)),
        };
    }
    let n = r.weighted(&[1, 2, 3, 3, 2]);
    if r.chance(1, 2) {
        return G::Arr((0..n).map(|_| gen_value(r, depth - 1, dups)).collect());
    }
    let mut o: Vec<(String, G)> = vec![];
    for _ in 0..n {
        let k = if dups && !o.is_empty() && r.chance(1, 5) { o[r.below(o.len())].0.clone() } else { r.pick(KEYS).to_string() };
        if dups || !o.iter().any(|(x, _)| *x == k) {
            o.push((k, gen_value(r, depth - 1, dups)));
        }
    }
    G::Obj(o)
}

fn escaped(s: &str) -> bool {
    s.chars().any(|c| c == '"' || c == '\\' || (c as u32) < 0x20 || !c.is_ascii())
}

/// Not scalars-only trivial: an object with >= 2 keys, a float or an integer outside i32, an escaped or non-ASCII string/key.
pub fn nontrivial(g: &G) -> bool {
    match g {
        G::Num(n) => n.is_f64() || n.as_i64().map_or(true, |i| i64::from(i as i32) != i),
        G::Str(s) => escaped(s),
        G::Arr(a) => a.iter().any(nontrivial),
        G::Obj(o) => o.len() >= 2 || o.iter().any(|(k, v)| escaped(k) || nontrivial(v)),
        _ => false,
    }
}

fn sorted_entries(o: &[(String, G)]) -> Vec<&(String, G)> {
    let mut ps: Vec<&(String, G)> = o.iter().collect();
    ps.sort_by(|a, b| a.0.as_bytes().cmp(b.0.as_bytes())); // stable: the last duplicate is inserted last and wins
    ps
}

/// The reference (serde_json) value; keys are inserted in byte order so the result is the same with or without `preserve_order`.
pub fn to_serde(g: &G) -> Value {
    match g {
        G::Null => Value::Null,
        G::Bool(b) => Value::Bool(*b),
        G::Num(n) => Value::Number(n.clone()),
        G::Str(s) => Value::String(s.clone()),
        G::Arr(a) => Value::Array(a.iter().map(to_serde).collect()),
        G::Obj(o) => {
            let mut m = serde_json::Map::new();
            for (k, v) in sorted_entries(o) {
                m.insert(k.clone(), to_serde(v));
            }
            Value::Object(m)
        }
    }
}

/// Hand-written JSON text writer. Without a PRNG: the canonical form (keys in byte order, no whitespace,
/// shortest escapes; needs unique keys). With one: keys shuffled, random whitespace, \uXXXX escapes
/// (surrogate pairs above the BMP), `\/`, alternative float spellings.
pub struct Tw {
    r: Option<Rng>,
    out: String,
}

impl Tw {
    pub fn canonical(g: &G) -> String {
        let mut t = Tw { r: None, out: String::new() };
        t.val(g);
        t.out
    }
    pub fn varied(g: &G, r: &mut Rng) -> String {
        let mut t = Tw { r: Some(Rng::new(r.next_u64())), out: String::new() };
        t.ws();
        t.val(g);
        t.ws();
        t.out
    }
    fn ws(&mut self) {
        if let Some(r) = &mut self.r {
            if r.chance(1, 3) {
                for _ in 0..r.range(1, 2) {
                    self.out.push(*r.pick(&[' ', '\n', '\t', '\r']));
                }
            }
        }
    }
    fn num(&mut self, n: &Number) {
        let t = n.to_string();
        let alt = match &mut self.r {
            Some(r) if n.is_f64() => r.chance(1, 3).then(|| r.below(4)),
            _ => None,
        };
        let Some(alt) = alt else { return self.out.push_str(&t) };
        let s = match t.split_once('e') {
            Some((m, e)) => match alt {
                0 => format!("{m}E{e}"),
                1 if !e.starts_with('-') => format!("{m}e+{e}"),
                2 if m.contains('.') => format!("{m}0e{e}"),
                2 => format!("{m}.0e{e}"),
                _ => format!("{m}e{}00{}", if e.starts_with('-') { "-" } else { "" }, e.trim_start_matches('-')),
            },
            None => format!("{t}{}", ["0", "e0", "E+0", "00e-0"][alt]),
        };
        self.out.push_str(&s);
    }
    pub fn str(&mut self, s: &str) {
        self.out.push('"');
        for c in s.chars() {
            let alt = self.r.as_mut().map_or(0, |r| if r.chance(1, 6) { 1 + r.below(2) } else { 0 });
            if alt > 0 && c == '/' {
                self.out.push_str("\\/");
            } else if alt > 0 {
                let mut u = [0u16; 2];
                for x in c.encode_utf16(&mut u) {
                    self.out.push_str(&if alt == 1 { format!("\\u{x:04x}") } else { format!("\\u{x:04X}") });
                }
            } else {
                match c {
                    '"' => self.out.push_str("\\\""),
                    '\\' => self.out.push_str("\\\\"),
                    '\u{8}' => self.out.push_str("\\b"),
                    '\u{c}' => self.out.push_str("\\f"),
                    '\n' => self.out.push_str("\\n"),
                    '\r' => self.out.push_str("\\r"),
                    '\t' => self.out.push_str("\\t"),
                    c if (c as u32) < 0x20 => self.out.push_str(&format!("\\u{:04x}", c as u32)),
                    c => self.out.push(c),
                }
            }
        }
        self.out.push('"');
    }
    fn val(&mut self, g: &G) {
        match g {
            G::Null => self.out.push_str("null"),
            G::Bool(b) => self.out.push_str(if *b { "true" } else { "false" }),
            G::Num(n) => self.num(n),
            G::Str(s) => self.str(s),
            G::Arr(a) => {
                self.out.push('[');
                self.ws();
                for (i, x) in a.iter().enumerate() {
                    if i > 0 {
                        self.out.push(',');
                        self.ws();
                    }
                    self.val(x);
                    self.ws();
                }
                self.out.push(']');
            }
            G::Obj(o) => {
                let mut ps = sorted_entries(o);
                if let Some(r) = &mut self.r {
                    r.shuffle(&mut ps);
                }
                self.out.push('{');
                self.ws();
                for (i, (k, v)) in ps.into_iter().enumerate() {
                    if i > 0 {
                        self.out.push(',');
                        self.ws();
                    }
                    self.str(k);
                    self.ws();
                    self.out.push(':');
                    self.ws();
                    self.val(v);
                    self.ws();
                }
                self.out.push('}');
            }
        }
    }
}

/// A logically different value (one small change somewhere) and the kind of change.
pub fn mutate(g: &G, r: &mut Rng) -> (G, &'static str) {
    match g {
        G::Arr(a) if !a.is_empty() && r.chance(2, 3) => {
            let i = r.below(a.len());
            let (x, k) = mutate(&a[i], r);
            let mut a = a.clone();
            a[i] = x;
            (G::Arr(a), k)
        }
        G::Obj(o) if !o.is_empty() && r.chance(2, 3) => {
            let i = r.below(o.len());
            let (x, k) = mutate(&o[i].1, r);
            let mut o = o.clone();
            o[i].1 = x;
            (G::Obj(o), k)
        }
        G::Num(n) => match n.as_f64() {
            Some(x) if n.is_f64() && x == 0.0 => (fnum(-x), "signed-zero"),
            Some(x) if !n.is_f64() && r.chance(1, 2) => (fnum(x), "int-to-float"),
            _ => (G::Num(gen_number(r)), "number"),
        },
        G::Str(s) => (G::Str(format!("{s}x")), "string"),
        G::Bool(b) => (G::Bool(!b), "bool"),
        G::Null => (r.pick(&[G::Bool(false), G::Num(0.into()), G::Str(String::new()), G::Str("null".into())]).clone(), "null"),
        G::Arr(a) if a.is_empty() => (G::Obj(vec![]), "empty-array-to-empty-object"),
        G::Arr(a) => {
            let mut a = a.clone();
            match r.below(3) {
                0 => drop(a.pop()),
                1 => a.push(G::Null),
                _ => a.reverse(),
            }
            (G::Arr(a), "array")
        }
        G::Obj(o) if o.is_empty() => (G::Arr(vec![]), "empty-object-to-empty-array"),
        G::Obj(o) => {
            let mut o = o.clone();
            match r.below(3) {
                0 => drop(o.pop()),
                1 => o[0].0.push('_'),
                _ => o.push(("zz".into(), G::Null)),
            }
            (G::Obj(o), "object")
        }
    }
}

/// Report a panic caught by `guarded`: in the code under test it is a violation, in the harness itself it is inconclusive.
pub fn panic_report(st: &mut Stats, prop: &str, case: u64, loc: &str, msg: &str, input: &str) {
    if loc.contains("src/mon/") || loc.contains("src/oracle/") {
        if st.inconclusive.len() < 5 {
            st.inconclusive.push(format!("harness panic at {loc}: {msg} (input {input})"));
        }
    } else {
        st.violation(prop, &format!("panic@{loc}"), &format!("panic {msg:?} at {loc} on input {input}"), case, json!({"input": input, "location": loc, "message": msg}));
    }
}

// ---------------------------------------------------------------- C25

const BATCH: u64 = 50;
const JSON: u64 = 0x0200;

/// Build the interpreter value "by hand" in two different ways (never through a parser or a conversion).
fn build(g: &G, r: &mut Rng, mode: usize) -> JValue {
    match g {
        G::Null => JValue::Null,
        G::Bool(b) => JValue::from(*b),
        G::Num(n) if mode == 0 => JValue::Number(n.clone()),
        G::Num(n) => match (n.as_u64(), n.as_i64(), n.as_f64()) {
            (Some(u), _, _) => JValue::from(u),
            (_, Some(i), _) => JValue::from(i),
            (_, _, f) => JValue::from(f.expect("a number")),
        },
        G::Str(s) if mode == 0 => JValue::string(s.as_str()),
        G::Str(s) => JValue::from(s.clone()),
        G::Arr(a) if mode == 0 => JValue::array_from_iter(a.iter().map(|x| build(x, r, mode))),
        G::Arr(a) => JValue::array(a.iter().map(|x| build(x, r, mode)).collect::<Vec<_>>()),
        G::Obj(o) => {
            let mut ps: Vec<&(String, G)> = o.iter().collect();
            r.shuffle(&mut ps);
            if mode == 0 {
                let pairs: Vec<(&str, JValue)> = ps.into_iter().map(|(k, v)| (k.as_str(), build(v, r, mode))).collect();
                JValue::object_from_pairs(pairs)
            } else {
                let mut m = Map::<JsonString, JValue>::new();
                for (k, v) in ps {
                    m.insert(k.as_str().into(), build(v, r, mode));
                }
                JValue::object(m)
            }
        }
    }
}

fn id_of<T: serde::Serialize>(v: &T) -> Result<String, String> {
    value_to_json_cid(v).map(|c| c.get_inner().to_string()).map_err(|e| format!("error: {e}"))
}

fn canonicality(g: &G, canon: &str, r: &mut Rng, case: u64, st: &mut Stats) {
    let sv = to_serde(g);
    let std_text = serde_json::to_string(&sv).unwrap_or_default();
    let varied = Tw::varied(g, r);
    // the reference reading of a text: a float spelling may round to another f64 (serde_json without float_roundtrip), then it IS another value
    let reading = |t: &str| serde_json::from_str::<Value>(t).ok().and_then(|v| serde_json::to_string(&v).ok());
    let (Some(canon_ref), Some(varied_ref)) = (reading(canon), reading(&varied)) else {
        if st.inconclusive.len() < 5 {
            st.inconclusive.push(format!("oracle self-disagreement: the reference rejects the harness's texts {canon:?} / {varied:?}"));
        }
        return;
    };
    if std_text != canon {
        if st.inconclusive.len() < 5 {
            st.inconclusive.push(format!("oracle self-disagreement: hand-written canonical text {canon:?} vs serde_json {std_text:?}"));
        }
        return;
    }
    if canon_ref != canon {
        st.inc("info_float_does_not_survive_its_own_canonical_text", 1);
    }
    if varied_ref != canon_ref {
        st.inc("info_varied_number_spelling_reads_as_another_value", 1);
    }
    let want = cid_of_bytes(canon.as_bytes());
    let parse = |t: &str| serde_json::from_str::<JValue>(t).map_err(|e| format!("error: {e}")).and_then(|v| id_of(&v));
    let routes: Vec<(&str, Result<String, String>, String)> = vec![
        ("jvalue-from-pairs-shuffled", id_of(&build(g, r, 0)), want.clone()),
        ("jvalue-map-inserts-shuffled", id_of(&build(g, r, 1)), want.clone()),
        ("jvalue-from-serde-value", id_of(&JValue::from(sv.clone())), want.clone()),
        ("jvalue-from-serde-ref", id_of(&JValue::from(&sv)), want.clone()),
        ("serde-value", id_of(&sv), want.clone()),
        ("jvalue-parsed-canonical-text", parse(canon), cid_of_bytes(canon_ref.as_bytes())),
        ("jvalue-parsed-varied-text", parse(&varied), cid_of_bytes(varied_ref.as_bytes())),
        ("raw-canonical-text", Ok(raw_value_to_json_cid::<JValue>(canon.as_bytes()).get_inner().to_string()), want.clone()),
        ("raw-varied-text", Ok(raw_value_to_json_cid::<JValue>(&varied).get_inner().to_string()), cid_of_bytes(varied.as_bytes())),
    ];
    for (route, got, want) in routes {
        st.inc("pairs_judged", 1);
        st.inc("id_routes_judged", 1);
        if got.as_ref() != Ok(&want) {
            let what = format!("value {canon} built via {route} gets id {got:?}; independently computed CIDv1(json, blake3-256 of the canonical text) is {want}");
            st.violation("C25", &format!("cid-unexpected@{route}"), &what, case, json!({"canonical_text": canon, "varied_text": varied, "route": route, "got": format!("{got:?}"), "expected": want}));
        }
    }
    if matches!(g, G::Obj(o) if o.len() >= 2) {
        st.sample(json!({"value": canon, "varied_text": varied, "expected_id": want}));
    }
}

/// The smallest sub-values that carry the difference between two values of the same shape (for readable witnesses).
fn shrink<'a>(a: &'a G, b: &'a G) -> (&'a G, &'a G) {
    let differ = |x: &G, y: &G| Tw::canonical(x) != Tw::canonical(y);
    let inner: Vec<(&G, &G)> = match (a, b) {
        (G::Arr(x), G::Arr(y)) if x.len() == y.len() => x.iter().zip(y).filter(|(x, y)| differ(x, y)).collect(),
        (G::Obj(x), G::Obj(y)) if x.len() == y.len() && x.iter().zip(y).all(|(x, y)| x.0 == y.0) => x.iter().zip(y).map(|(x, y)| (&x.1, &y.1)).filter(|(x, y)| differ(x, y)).collect(),
        _ => vec![],
    };
    match inner[..] {
        [(x, y)] => shrink(x, y),
        _ => (a, b),
    }
}

/// Two values: same canonical text => same id; different => different ids, and `==` must not call them equal.
fn judge_pair(a: &G, b: &G, kind: &str, r: &mut Rng, case: u64, st: &mut Stats) {
    let (ca, cb) = (Tw::canonical(a), Tw::canonical(b));
    let (ja, jb) = (build(a, r, 0), build(b, r, 1));
    let (ia, ib) = (id_of(&ja), id_of(&jb));
    let eq = ja == jb;
    st.inc("pairs_judged", 1);
    st.inc(&format!("value_pairs[{kind}]"), 1);
    let detail = json!({"a": ca, "b": cb, "id_a": format!("{ia:?}"), "id_b": format!("{ib:?}"), "jvalue_eq": eq, "kind": kind});
    if ca == cb {
        st.inc("same_value_pairs", 1);
        if ia != ib || !eq {
            st.violation("C25", "cid-differs@same-value", &format!("the same value {ca} built twice: ids {ia:?} / {ib:?}, == gives {eq}"), case, detail);
        }
    } else if ia == ib {
        st.violation("C25", "cid-collides@different-values", &format!("different values {ca} and {cb} get the same id {ia:?}"), case, detail);
    } else if eq && kind == "signed-zero" {
        // 0.0 and -0.0 have different JSON texts (hence different ids) while the value type's ==
        // (IEEE comparison through serde_json::Number) calls them equal. The statement speaks of
        // equal values, it does not say that == decides equality of signed zeros: counted, not flagged.
        st.inc("statement_silent[signed-zero-equal-under-==-but-different-ids]", 1);
    } else if eq {
        let (sa, sb) = shrink(a, b);
        let (ta, tb, ja, jb) = (Tw::canonical(sa), Tw::canonical(sb), build(sa, r, 0), build(sb, r, 0));
        let what = format!("JValue {ta} == JValue {tb} gives {}, but their ids differ: {:?} vs {:?} (full values in the detail)", ja == jb, id_of(&ja), id_of(&jb));
        st.violation("C25", &format!("cid-differs@equal-values-{kind}"), &what, case, detail);
    } else {
        st.inc("different_values_different_ids", 1);
    }
}

fn directed_pairs() -> Vec<(G, G, &'static str)> {
    let i = |x: i64| G::Num(x.into());
    let s = |x: &str| G::Str(x.into());
    let o = |k: &str, v: G| G::Obj(vec![(k.into(), v)]);
    vec![
        (fnum(0.0), fnum(-0.0), "signed-zero"),
        (G::Arr(vec![fnum(0.0)]), G::Arr(vec![fnum(-0.0)]), "signed-zero"),
        (o("a", fnum(-0.0)), o("a", fnum(0.0)), "signed-zero"),
        (i(0), fnum(0.0), "int-to-float"),
        (i(1), fnum(1.0), "int-to-float"),
        (i(i64::MAX), fnum(i64::MAX as f64), "int-to-float"),
        (G::Num(u64::MAX.into()), fnum(u64::MAX as f64), "int-to-float"),
        (s("1"), i(1), "string"),
        (G::Null, s("null"), "null"),
        (G::Arr(vec![]), G::Obj(vec![]), "empty-array-to-empty-object"),
        (G::Obj(vec![("a".into(), i(1)), ("b".into(), i(2))]), G::Obj(vec![("b".into(), i(2)), ("a".into(), i(1))]), "key-order"),
        (o("é", s("\u{1f600}")), o("é", s("\u{1f600}")), "same"),
    ]
}

#[derive(Clone, Copy, PartialEq)]
enum Exp {
    Accept,
    Reject,
    Any,
}

fn id_mutations(canon: &str, other: &str, varied: &str, r: &mut Rng) -> Vec<(String, String, Exp)> {
    use Exp::*;
    let raw = canon.as_bytes();
    let (b3, s2) = (blake3_256(raw).to_vec(), sha2_256(raw).to_vec());
    let good = cid_bytes(1, JSON, 0x1e, 32, &b3);
    let good_text = multibase('b', &good);
    let mut flipped = b3.clone();
    flipped[r.below(32)] ^= 1 << r.below(8);
    let bad = cid_bytes(1, JSON, 0x1e, 32, &flipped);
    let mut ids: Vec<(String, String, Exp)> = vec![];
    let mut add = |l: &str, id: String, e: Exp| ids.push((l.to_string(), id, e));
    let pick = |r: &mut Rng| if r.chance(1, 2) { (0x1e, b3.clone()) } else { (0x12, s2.clone()) };

    add("blake3-json", good_text.clone(), Accept);
    add("sha2-256-json", cid_text(JSON, 0x12, &s2), Accept);
    let rnd_codec = loop {
        let c = r.next_u64() % (1 << 21);
        if c != JSON {
            break c;
        }
    };
    for (l, codec) in [("codec-raw", 0x55), ("codec-dag-cbor", 0x71), ("codec-dag-json", 0x0129), ("codec-dag-pb", 0x70), ("codec-0x201", 0x0201), ("codec-0", 0), ("codec-random", rnd_codec)] {
        let (h, d) = pick(r);
        add(l, cid_text(codec, h, &d), Reject);
    }
    add("hash-sha2-code-with-blake3-digest", cid_text(JSON, 0x12, &b3), Reject);
    add("hash-blake3-code-with-sha2-digest", cid_text(JSON, 0x1e, &s2), Reject);
    let rnd_hash = loop {
        let c = r.next_u64() % (1 << 17);
        if c != 0x12 && c != 0x1e {
            break c;
        }
    };
    for (l, h) in [("hash-identity", 0), ("hash-sha1", 0x11), ("hash-sha2-512", 0x13), ("hash-sha3-256", 0x16), ("hash-keccak-256", 0x1b), ("hash-blake2b-256", 0xb220), ("hash-blake2s-256", 0xb260), ("hash-random-code", rnd_hash)] {
        add(l, cid_text(JSON, h, &pick(r).1), Reject);
    }
    for (l, n) in [("truncated-16", 16), ("truncated-31", 31), ("truncated-0", 0), ("truncated-random", r.below(32))] {
        let (h, d) = pick(r);
        add(l, cid_text(JSON, h, &d[..n]), Reject);
    }
    let (h, d) = pick(r);
    add("length-field-32-digest-16", multibase('b', &cid_bytes(1, JSON, h, 32, &d[..16])), Reject);
    add("length-field-16-digest-32", multibase('b', &cid_bytes(1, JSON, h, 16, &d)), Reject);
    for (l, n) in [("extended-33", 33), ("extended-64", 64), ("extended-65", 65)] {
        let (h, mut d) = pick(r);
        d.extend(r.bytes(n - 32));
        add(l, cid_text(JSON, h, &d), Reject);
    }
    add("flipped-digest-bit", multibase('b', &bad), Reject);
    if other != canon {
        add("digest-of-another-value", cid_text(JSON, 0x1e, &blake3_256(other.as_bytes())), Reject);
        add("sha2-digest-of-another-value", cid_text(JSON, 0x12, &sha2_256(other.as_bytes())), Reject);
    }
    if varied != canon {
        add("digest-of-noncanonical-text", cid_text(JSON, 0x1e, &blake3_256(varied.as_bytes())), Reject);
    }
    for (l, v) in [("version-0-explicit", 0), ("version-2", 2), ("version-3", 3), ("version-random", 4 + r.next_u64() % 1000)] {
        add(l, multibase('b', &cid_bytes(v, JSON, 0x1e, 32, &b3)), Reject);
    }
    for base in ['z', 'B', 'f', 'F', 'm', 'u'] {
        add(&format!("multibase-{base}-matching"), multibase(base, &good), Any);
        add(&format!("multibase-{base}-flipped-digest-bit"), multibase(base, &bad), Reject);
    }
    add("cidv0-sha2", cidv0(&s2), Reject);
    add("cidv0-blake3-digest", cidv0(&b3), Reject);
    // renderings of the matching id that are not the canonical text of it: the statement is silent, count only
    let mut trailing = good.clone();
    let extra = r.range(1, 4);
    trailing.extend(r.bytes(extra));
    add("trailing-bytes", multibase('b', &trailing), Any);
    let mut pad = good_text.clone();
    pad.pop();
    pad.push(if good[36] & 1 == 0 { 'b' } else { 'r' }); // same data bit, non-zero padding bits
    add("nonzero-padding-bits", pad, Any);
    add("uppercase-body", format!("b{}", good_text[1..].to_ascii_uppercase()), Any);
    add("whitespace-wrapped", format!(" {good_text}\n"), Any);
    let mut nonmin = vec![0x01, 0x80, 0x84, 0x00, 0x1e, 0x20];
    nonmin.extend_from_slice(&b3);
    add("non-minimal-varint-codec", multibase('b', &nonmin), Any);
    // not ids at all
    for g in ["", "b", "z", "Qm", "garbage", "bagaaihra", "null", "\u{0}"] {
        add("garbage-fixed", g.to_string(), Reject);
    }
    add("garbage-ascii", (0..r.range(1, 70)).map(|_| (0x20 + r.below(95) as u8) as char).collect(), Reject);
    add("garbage-unicode", (0..r.range(1, 20)).map(|_| *r.pick(CHARS)).collect(), Reject);
    let pos = r.range(1, good_text.len() - 2); // never the prefix, never the last character (it carries padding bits)
    let mut t: Vec<char> = good_text.chars().collect();
    t[pos] = *r.pick(&['1', '8', '0', '9', '!', ' ', 'é']);
    add("invalid-character", t.iter().collect(), Reject);
    let mut t: Vec<char> = good_text.chars().collect();
    t[pos] = if t[pos] == 'a' { 'q' } else { 'a' };
    add("substituted-character", t.iter().collect(), Reject);
    let mut t: Vec<char> = good_text.chars().collect();
    t.remove(pos);
    add("deleted-character", t.iter().collect(), Reject);
    ids
}

fn verification(g: &G, canon: &str, r: &mut Rng, case: u64, st: &mut Stats) {
    let sv = to_serde(g);
    let mode = r.below(2);
    let jv = build(g, r, mode);
    let other = Tw::canonical(&mutate(g, r).0);
    let varied = Tw::varied(g, r);
    let kind = |e: CidVerificationError| format!("{e:?}").split(|c: char| !c.is_alphanumeric()).next().unwrap_or("?").to_string();
    for (label, id, exp) in id_mutations(canon, &other, &varied, r) {
        st.inc("pairs_judged", 1);
        st.inc("id_mutations_judged", 1);
        let verdicts = [
            ("verify_value::<JValue>", verify_value(&CID::<JValue>::new(id.as_str()), &jv).map_err(kind)),
            ("verify_value::<serde_json::Value>", verify_value(&CID::<Value>::new(id.as_str()), &sv).map_err(kind)),
            ("verify_raw_value", verify_raw_value(&CID::<JValue>::new(id.as_str()), canon.as_bytes()).map_err(kind)),
        ];
        for (func, got) in verdicts {
            match (&got, exp) {
                (Ok(()), Exp::Reject) | (Err(_), Exp::Accept) => {
                    let verb = if got.is_ok() { "accepts" } else { "rejects" };
                    let what = format!("{func} {verb} id {id:?} ({label}) for the value {canon}: {got:?}");
                    st.violation("C25", &format!("verify-{verb}@{label}"), &what, case, json!({"function": func, "id": id, "id_kind": label, "canonical_text": canon, "result": format!("{got:?}")}));
                }
                (_, Exp::Any) => st.inc(&format!("info_{label}_{}", if got.is_ok() { "accepted" } else { "rejected" }), 1),
                (Ok(()), _) => st.inc("accepted_as_required", 1),
                (Err(k), _) => {
                    st.inc("rejected_as_required", 1);
                    st.label("rejection_kinds", k);
                }
            }
        }
    }
    // raw values are identified by exactly the bytes given: a non-canonical spelling under its own id must verify
    if varied != canon {
        st.inc("pairs_judged", 2);
        if let Err(e) = verify_raw_value(&CID::<JValue>::new(cid_of_bytes(varied.as_bytes())), &varied) {
            let what = format!("verify_raw_value rejects the raw text {varied:?} under the id of exactly these bytes: {e:?}");
            st.violation("C25", "verify-rejects@raw-noncanonical-text-own-id", &what, case, json!({"raw": varied, "id": cid_of_bytes(varied.as_bytes())}));
        }
        let loose = verify_raw_value(&CID::<JValue>::new(cid_of_bytes(canon.as_bytes())), &varied).is_ok();
        st.inc(&format!("info_raw-noncanonical-text-under-canonical-id_{}", if loose { "accepted" } else { "rejected" }), 1);
    }
}

fn check_value(g: &G, r: &mut Rng, case: u64, st: &mut Stats) {
    let canon = Tw::canonical(g);
    st.inc("values", 1);
    st.seen("distinct_values", fnv(canon.as_bytes()));
    if nontrivial(g) {
        st.seen("nontrivial_values", fnv(canon.as_bytes()));
    }
    let res = guarded(|| {
        canonicality(g, &canon, r, case, st);
        let (g2, kind) = mutate(g, r);
        judge_pair(g, &g2, kind, r, case, st);
        judge_pair(g, &g.clone(), "same", r, case, st);
        verification(g, &canon, r, case, st);
    });
    if let Err((loc, msg)) = res {
        panic_report(st, "C25", case, &loc, &msg, &canon);
    }
}

fn self_tests(st: &mut Stats) {
    let t = b"\"test\"";
    let good = cid_bytes(1, JSON, 0x1e, 32, &blake3_256(t));
    let obj = G::Obj(vec![("b".into(), G::Num(1.into())), ("a".into(), G::Str("x\n\u{1}é".into()))]);
    let mut checks = vec![
        ("blake3 id of \"test\"", cid_of_bytes(t) == "bagaaihrarcyykpv4oj7zwdbepczyfthxya4og7s2rwvrzolm5kg2eu5dz3xa"),
        ("blake3 id of {\"key\":42}", cid_of_bytes(br#"{"key":42}"#) == "bagaaihracpzxhsrpviexa7k6glwdhyh3a4kvy6j7qlcqokzqbs3q424cmxyq"),
        ("blake3 id of [1,2,3]", cid_of_bytes(b"[1,2,3]") == "bagaaihram6sitn77tquub77n2jzjgttrlwkverv44pv3gns6qghm6hx6d36a"),
        ("sha2 id of \"test\"", cid_text(JSON, 0x12, &sha2_256(t)) == "bagaaierajwlhumardpzj6dv2ahcerm3vyfrjwl7nahg7zq5o3eprwv6v3vpa"),
        ("base58btc id of \"test\"", multibase('z', &good) == "z3v8BBKBcZMDh6ANTaiT7PmfrBWbBmoVQvDxojXt1M4eczFDmhF"),
        ("canonical writer", Tw::canonical(&obj) == "{\"a\":\"x\\n\\u0001é\",\"b\":1}"),
        ("canonical writer: numbers", Tw::canonical(&G::Arr(vec![fnum(-0.0), fnum(1e308), G::Num(u64::MAX.into()), G::Num(i64::MIN.into())])) == "[-0.0,1e308,18446744073709551615,-9223372036854775808]"),
        ("cidv0 shape", cidv0(&sha2_256(t)).starts_with("Qm") && cidv0(&sha2_256(t)).len() == 46),
    ];
    for base in ['b', 'B', 'f', 'F', 'z', 'm', 'u'] {
        // third-party decoder (cid crate) reads every rendering back to the same bytes
        let back = cid::Cid::try_from(multibase(base, &good).as_str()).map(|c| c.to_bytes());
        checks.push(("multibase rendering read back by the cid crate", back.ok().as_ref() == Some(&good)));
    }
    for (name, ok) in checks {
        if !ok {
            st.inconclusive.push(format!("oracle self-test failed: {name}"));
        }
    }
}

pub fn run(cfg: &Cfg) -> Report {
    let n = cfg.scale(200, 4000);
    let mut stats = par_cases(cfg, n, |case, st| {
        let mut r = Rng::derive(cfg.seed, 25, case);
        if case == 0 {
            for (a, b, kind) in directed_pairs() {
                let res = guarded(|| judge_pair(&a, &b, kind, &mut r.clone(), case, st));
                if let Err((loc, msg)) = res {
                    panic_report(st, "C25", case, &loc, &msg, &Tw::canonical(&a));
                }
            }
        }
        for _ in 0..BATCH {
            let g = gen_value(&mut r, 4, false);
            let mut vr = Rng::new(r.next_u64());
            check_value(&g, &mut vr, case, st);
        }
    });
    self_tests(&mut stats);
    let sorted = serde_json::to_string(&serde_json::from_str::<Value>(r#"{"b":1,"a":2}"#).unwrap_or_default()).unwrap_or_default() == r#"{"a":2,"b":1}"#;
    crate::sanitize::passes_for("C25", cfg, &mut stats);
    Report {
        prop: "C25",
        level: "exploration",
        stats,
        evaluations_key: "pairs_judged",
        nontrivial_key: "nontrivial_values",
        rule: format!(
            "each case index generates {BATCH} JSON values (depth <= 4; objects with unique keys from a 24-key alphabet incl. unicode/escapes/empty; arrays; escaped and non-BMP strings; integers at the i32/2^53/i64/u64 boundaries; floats incl. +-0.0, subnormals, f64::MAX, random bit patterns). Per value: 9 construction routes (hand-built JValue with shuffled pair / map insertion order, From<serde_json::Value>, serde_json::Value itself, JValue parsed from canonical and from permuted/re-spaced/re-escaped text, raw text) are each compared with the independently computed CIDv1(0x0200, blake3-256) of the hand-written canonical text; one mutated value and one rebuilt copy are judged as value pairs; ~65 id mutations (codec, hash code, truncated/extended/flipped/foreign digest, version, multibase renderings, CIDv0, malformed text) are judged by verify_value::<JValue>, verify_value::<serde_json::Value> and verify_raw_value. evaluations = (route, value) + (value, value) + (id, value) pairs; non-trivial = the value has an object with >= 2 keys, a float or integer outside i32, or an escaped/non-ASCII string; distinct by fnv of the canonical text"
        ),
        assumptions: vec![
            format!("the interpreter's Map is a BTreeMap (air-interpreter-value built without preserve_order) and serde_json is built {} preserve_order, so the canonical form has keys in byte order and insertion order cannot matter; the expected text is written by hand (keys sorted by bytes, serde_json escapes, numbers as serde_json::Number prints them) and cross-checked against serde_json::to_string", if sorted { "without" } else { "WITH" }),
            "1 and 1.0 (integer vs float spelling) are different values with different canonical texts; different ids for them are counted, not flagged. A pair is flagged only when JValue == calls two values equal while their ids differ".into(),
            "other multibase renderings, trailing bytes, non-zero base32 padding bits, non-minimal varints of a MATCHING id: the statement is silent, outcomes are counted (info_*), never flagged".into(),
            "verify_raw_value is judged against the id of exactly the raw bytes given (the canonical text)".into(),
        ],
    }
}
