//! C05: each service call runs exactly once and its result is never lost.
use super::honest::*;
use crate::invoke::*;
use crate::oracle::cidv::cid_of_bytes;
use crate::proj::{self, St};
use crate::report::*;
use serde_json::{json, Value};
use std::collections::BTreeMap;

/// class of a call instance as seen by the host: (service, function, argument hash)
fn class_of_request(r: &CallRequest) -> String {
    let args = serde_json::to_string(&r.args).unwrap_or_default();
    format!("{}|{}|{}", r.service, r.function, cid_of_bytes(args.as_bytes()))
}

/// value id the interpreter records for a host result
fn recorded_value_cid(code: i32, result: &str) -> Option<String> {
    if code == 0 {
        let v: Value = serde_json::from_str(result).ok()?;
        Some(cid_of_bytes(v.to_string().as_bytes()))
    } else {
        Some(cid_of_bytes(format!("{{\"message\":{},\"ret_code\":{code}}}", serde_json::to_string(result).ok()?).as_bytes()))
    }
}

/// states of `data` attributable to peer `p`: class -> count, and value-cid multiset
fn states_of_peer(data: &Value, p: &str, my_unused: &BTreeMap<String, u64>) -> (BTreeMap<String, u64>, BTreeMap<String, u64>) {
    let mut classes: BTreeMap<String, u64> = BTreeMap::new();
    let mut values: BTreeMap<String, u64> = BTreeMap::new();
    for s in proj::states(data) {
        match &s {
            St::CallExec { kind, cid, .. } if *kind != "unused" => {
                if let Some(agg) = proj::store(data, "service_result_store").get(cid) {
                    if let Some((_, t, ah)) = proj::service_result(data, cid) {
                        if t.get("peer_pk").and_then(|x| x.as_str()) == Some(p) {
                            let cl = format!("{}|{}|{}", t["service_id"].as_str().unwrap_or(""), t["function_name"].as_str().unwrap_or(""), ah);
                            *classes.entry(cl).or_default() += 1;
                            *values.entry(agg["value_cid"].as_str().unwrap_or("").to_string()).or_default() += 1;
                        }
                    }
                }
            }
            St::CallFailed(cid) => {
                if let Some(agg) = proj::store(data, "service_result_store").get(cid) {
                    if let Some((_, t, ah)) = proj::service_result(data, cid) {
                        if t.get("peer_pk").and_then(|x| x.as_str()) == Some(p) {
                            let cl = format!("{}|{}|{}", t["service_id"].as_str().unwrap_or(""), t["function_name"].as_str().unwrap_or(""), ah);
                            *classes.entry(cl).or_default() += 1;
                            *values.entry(agg["value_cid"].as_str().unwrap_or("").to_string()).or_default() += 1;
                        }
                    }
                }
            }
            St::CallExec { cid, .. } => {
                // output-less result: no attribution in the data; the generator makes such values
                // identify their call site, so attribute by value id
                if my_unused.contains_key(cid) {
                    *values.entry(cid.clone()).or_default() += 1;
                }
            }
            _ => {}
        }
    }
    (classes, values)
}

/// a fold over a stream, a map or a canonical stream may visit equal values (two appends of the same
/// value): instances then share a class
fn has_stream_fold(ins: &crate::ast::Ins) -> bool {
    let mut found = false;
    ins.walk(&mut |i| {
        if let crate::ast::Ins::Fold { iterable: crate::ast::Val::Var(n), .. } = i {
            // canonical streams too: `(ap x $s)` inside a fold puts the same value into the stream several times
            if n.starts_with('$') || n.starts_with('%') || n.starts_with('#') {
                found = true;
            }
        }
    });
    found
}

pub fn run(cfg: &Cfg) -> Report {
    let n = cfg.scale(1500, 40000);
    let stats = run_honest(cfg, 5, n, &[Frag::SeqNoFail, Frag::StreamNoFail, Frag::Seq, Frag::Stream], |c, case, _rng, st| {
        let w = &c.world;
        let h = &c.history;
        let failing = h.steps.iter().any(|s| !matches!(s.class(), CodeClass::Success));
        for s in &h.steps {
            // the honest host answers only requests that are pending: a result reported as unprocessed
            // was not recorded at its call (and the exclusion below must not hide that)
            if s.out.ret_code == 30000 {
                st.violation("C05", "result-not-recorded@reported-unprocessed", &format!("step {} at {}: the results handed in answer pending requests, but the run reports them as unprocessed: {}", s.idx, w.peers[s.peer].name, proj::trunc(&s.out.error_message, 160)), case, json!({"step": s.idx, "history": history_sample(c, 60)}));
            }
        }
        // at most once, whatever the run codes: a request class (service, function, arguments) names a
        // call instance unless the script repeats it; the same peer is never asked twice for more
        // instances than results it could place
        for p in 0..w.peers.len() {
            let mut asked: BTreeMap<String, Vec<usize>> = BTreeMap::new();
            for s in h.steps.iter().filter(|s| s.peer == p) {
                if let Ok(reqs) = &s.out.requests {
                    for r in reqs.values() {
                        asked.entry(class_of_request(r)).or_default().push(s.idx);
                    }
                }
            }
            if let Some(ins) = &w.script {
                for (cl, steps) in &asked {
                    if steps.len() < 2 {
                        continue;
                    }
                    // how many call sites of the script carry this function name (unique per site by
                    // construction); iterators are trailing arguments, so instances differ in the class
                    let func = cl.split('|').nth(1).unwrap_or("");
                    let mut sites = 0;
                    ins.walk(&mut |i| {
                        if let crate::ast::Ins::Call { func: crate::ast::Val::Lit(f), .. } = i {
                            if f == func {
                                sites += 1;
                            }
                        }
                    });
                    let in_stream_fold = has_stream_fold(ins);
                    if sites == 1 && !in_stream_fold {
                        st.violation("C05", "call-instance-requested-twice", &format!("{} was asked to run the call instance {cl} at steps {:?}", w.peers[p].name, steps), case, json!({"step": steps[1], "history": history_sample(c, 60)}));
                    } else {
                        st.inc("repeated_request_classes_not_judged_by_the_site_rule", 1);
                    }
                }
            }
        }
        if failing {
            // a failing run may legitimately drop results handed in with it (prev data is returned);
            // exact conservation is judged on failure-free histories only
            st.inc("histories_with_a_non_success_run_excluded_from_conservation", 1);
        }
        for p in 0..w.peers.len() {
            let pid = &w.peers[p].id;
            let mut requests: BTreeMap<String, u64> = BTreeMap::new();
            let mut req_by_id: BTreeMap<u32, String> = BTreeMap::new();
            let mut handed: BTreeMap<String, u64> = BTreeMap::new(); // value cid -> count
            let mut handed_class: BTreeMap<String, u64> = BTreeMap::new();
            let mut all_my_values: BTreeMap<String, u64> = BTreeMap::new();
            for s in h.steps.iter().filter(|s| s.peer == p) {
                for (_, (_, code, res)) in &s.results_given {
                    if let Some(v) = recorded_value_cid(*code, res) {
                        *all_my_values.entry(v).or_default() += 1;
                    }
                }
            }
            let mut last_out: Option<std::rc::Rc<Value>> = None;
            for s in h.steps.iter().filter(|s| s.peer == p) {
                st.inc("peer_runs_checked", 1);
                if let Ok(reqs) = &s.out.requests {
                    for (id, r) in reqs {
                        let cl = class_of_request(r);
                        *requests.entry(cl.clone()).or_default() += 1;
                        if req_by_id.insert(*id, cl).is_some() {
                            st.violation("C05", "request-id-reused", &format!("{} was handed request id {id} twice", w.peers[p].name), case, json!({"step": s.idx, "history": history_sample(c, 60)}));
                        }
                        st.inc("requests_seen", 1);
                    }
                }
                for (id, (r, code, res)) in &s.results_given {
                    st.inc("results_handed", 1);
                    st.seen("distinct_results", crate::rng::fnv(format!("{}|{id}|{}|{res}", w.particle_id, w.peers[p].name).as_bytes()));
                    if let Some(v) = recorded_value_cid(*code, res) {
                        *handed.entry(v).or_default() += 1;
                    }
                    *handed_class.entry(class_of_request(r)).or_default() += 1;
                }
                let Some(ov) = &s.out_v else { continue };
                if !s.produced_new_data() {
                    continue;
                }
                last_out = Some(ov.clone());
                if failing {
                    continue;
                }
                // (b) every result handed so far is recorded exactly once, at a call of its class
                let (classes, values) = states_of_peer(ov, pid, &all_my_values);
                for (v, cnt) in &handed {
                    let got = values.get(v).cloned().unwrap_or(0);
                    if got != *cnt {
                        let sig = if got < *cnt { "result-lost" } else { "result-recorded-twice" };
                        st.violation("C05", sig, &format!("after step {} {} has been handed {cnt} result(s) with value id {} but its data records {got}", s.idx, w.peers[p].name, proj::short(v)), case, json!({"step": s.idx, "history": history_sample(c, 60)}));
                    }
                }
                for (v, got) in &values {
                    if handed.get(v).cloned().unwrap_or(0) < *got {
                        st.violation("C05", "recorded-result-never-handed", &format!("after step {} the data of {} records {got} result(s) with value id {} attributed to it, but its host handed in fewer", s.idx, w.peers[p].name, proj::short(v)), case, json!({"step": s.idx, "history": history_sample(c, 60)}));
                    }
                }
                for (cl, cnt) in &handed_class {
                    let got = classes.get(cl).cloned().unwrap_or(0);
                    // output-less calls have no class in the data; they are covered by the value count
                    if got > *cnt {
                        st.violation("C05", "result-recorded-at-another-call", &format!("after step {} the data of {} records {got} executed/failed states of call class {cl}, but only {cnt} results of that class were handed in", s.idx, w.peers[p].name), case, json!({"step": s.idx, "history": history_sample(c, 60)}));
                    }
                }
            }
            // (a) no call instance is requested more often than it occurs in the final trace
            if let (Some(fv), false) = (&last_out, failing) {
                let (classes, _) = states_of_peer(fv, pid, &all_my_values);
                let mut pending_classes: BTreeMap<String, u64> = BTreeMap::new();
                for s in proj::states(fv) {
                    if let St::CallSent(sp, Some(id)) = s {
                        if sp == *pid {
                            if let Some(cl) = req_by_id.get(&(id as u32)) {
                                *pending_classes.entry(cl.clone()).or_default() += 1;
                            }
                        }
                    }
                }
                // calls without an output variable cannot be told apart by class in the data:
                // count the value-attributed ones through results handed
                for (cl, nreq) in &requests {
                    let in_trace = classes.get(cl).cloned().unwrap_or(0) + pending_classes.get(cl).cloned().unwrap_or(0);
                    let handed_cl = handed_class.get(cl).cloned().unwrap_or(0);
                    let bound = in_trace.max(handed_cl.min(*nreq)).max(if classes.get(cl).is_none() && pending_classes.get(cl).is_none() { handed_cl } else { 0 });
                    if *nreq > bound.max(1) || (*nreq > 1 && in_trace == 1) {
                        st.violation("C05", "call-requested-again", &format!("{} was asked {nreq} times to run call class {cl}, which occurs {in_trace} time(s) in its final trace", w.peers[p].name), case, json!({"history": history_sample(c, 80)}));
                    }
                    if *nreq == 1 {
                        st.inc("call_instances_requested_exactly_once", 1);
                    } else {
                        st.inc("call_classes_with_several_instances", 1);
                    }
                }
                // (c) at quiescence: requested == recorded
                if h.quiescent {
                    st.inc("quiescent_peer_histories_checked", 1);
                    let total_req: u64 = requests.values().sum();
                    let total_handed: u64 = handed_class.values().sum();
                    if total_req != total_handed {
                        st.violation("C05", "requests-not-answered-at-quiescence", &format!("{}: {total_req} requests but {total_handed} results at quiescence (harness accounting)", w.peers[p].name), case, json!({}));
                    }
                }
            }
        }
    });
    Report {
        prop: "C05",
        level: "exploration",
        stats,
        evaluations_key: "peer_runs_checked",
        nontrivial_key: "distinct_results",
        rule: "offline checker over complete honest histories (calls in seq/par/xor/fold over scalars and streams, canon, new; particles returning many times, duplicated deliveries, late/batched results): per peer, request ids never repeat; after every run the multiset of result values recorded for the peer (by tetraplet, or by value id for output-less calls) equals the multiset of results its host handed in so far; no call class is recorded more often than results were handed for it; no call class is requested more often than it occurs in the final trace; distinct = distinct (particle, peer, id, result) handed in".into(),
        assumptions: vec![
            "service results identify their call-site instance (unique function names, argument digest in the result)".into(),
            "exact conservation is judged on histories whose runs all end with code 0: a failing run returns the previous data and the results handed in with it are gone by design".into(),
        ],
    }
}
