//! Late-failure workload for C02/C18: uncatchable errors raised after service results were applied
//! in the same run (stream size limit in a recursive fold, scalar shadowing, iterator shadowing).
use crate::invoke::*;
use crate::report::*;
use crate::rng::Rng;
use crate::sim::*;
use serde_json::json;
use std::collections::BTreeMap;

pub fn late_scripts(rng: &mut Rng, me: &str) -> (String, &'static str) {
    let n = rng.range(1, 3);
    let mut pre = String::new();
    let mut close = String::new();
    for i in 0..n {
        pre.push_str(&format!("(seq (call \"{me}\" (\"svc\" \"f{i}\") [] v{i}) "));
        close.push(')');
    }
    match rng.below(12) {
        0 => (
            // unbounded recursive stream fold: hits the stream size limit
            format!("{pre}(seq (ap \"seed\" $s) (fold $s it (seq (ap it $s) (next it)))){close}"),
            "stream-size-limit",
        ),
        1..=6 => (
            // the same scalar defined twice in one scope
            format!("{pre}(seq (call \"{me}\" (\"svc\" \"fa\") [] dup) (call \"{me}\" (\"svc\" \"fb\") [] dup)){close}"),
            "scalar-shadowing",
        ),
        _ => (
            // a scalar fold over an iterable with a nested fold using the same iterator name is rejected by the parser;
            // use a runtime type error instead: fold over a non-array is catchable, so use shadowing inside a fold
            format!("{pre}(seq (call \"{me}\" (\"svc\" \"arr9\") [] xs) (fold xs it (seq (call \"{me}\" (\"svc\" \"fc\") [it] inner) (seq (call \"{me}\" (\"svc\" \"fd\") [it] inner) (next it))))){close}"),
            "shadowing-in-fold",
        ),
    }
}

pub fn run_late_failures(cfg: &Cfg, n: u64) -> Stats {
    par_cases(cfg, n, |case, st| {
        let mut rng = Rng::derive(cfg.seed, 0x1a7e, case);
        let peers = standard_peers(1);
        let me = &peers[0];
        let (air, kind) = late_scripts(&mut rng, &me.id);
        let w = World::new(1, air.clone(), None, &format!("late-{}-{case}", cfg.seed), 3);
        // drive the single peer: answer pending requests in random batches until nothing is pending
        let mut prev: Vec<u8> = vec![];
        let mut pending: BTreeMap<u32, CallRequest> = BTreeMap::new();
        let mut first = true;
        for _ in 0..40 {
            let mut input = w.input(me);
            input.prev = prev.clone();
            let mut given = vec![];
            let mut cr = BTreeMap::new();
            if !first {
                if pending.is_empty() {
                    break;
                }
                let ids: Vec<u32> = pending.keys().cloned().collect();
                let k = rng.range(1, ids.len());
                for id in ids.into_iter().take(k) {
                    let r = pending.remove(&id).unwrap();
                    let (code, res) = w.serve(&r.function, &r.args);
                    cr.insert(id.to_string(), (code, res.clone()));
                    given.push((id.to_string(), code, res));
                }
            }
            first = false;
            input.call_results = CallResultsIn::Map(cr);
            let out = invoke(&input);
            st.inc("runs_checked", 1);
            st.inc("late_failure_runs", 1);
            if matches!(classify(out.ret_code), CodeClass::Uncatchable) {
                st.inc("late_uncatchable_failures", 1);
                st.label("late_failure_kinds", kind);
                if !given.is_empty() {
                    st.inc("uncatchable_after_results_applied", 1);
                    st.seen("nontrivial_runs", crate::mon::c02::input_hash(&input));
                }
            }
            if let Some((sig, what)) = crate::mon::c02::check_outcome(&input, &out, &given, &w.particle_id) {
                st.violation("C02", &sig, &what, case, json!({"air": air, "kind": kind, "ret_code": out.ret_code, "error": out.error_message}));
            }
            prev = out.data.clone();
            if let Ok(r) = &out.requests {
                for (id, q) in r {
                    pending.insert(*id, q.clone());
                }
            }
        }
    })
}
