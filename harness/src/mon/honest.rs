//! Shared honest-history workload: generated scripts, honest peers, deterministic services,
//! adversarial scheduler (reordering, duplication, late/batched call results).
use crate::gen::{self, GenCfg};
use crate::report::{par_cases, Cfg, Stats};
use crate::rng::{fnv, Rng};
use crate::sim::*;
use serde_json::Value;

#[derive(Clone, Copy, Debug, PartialEq)]
pub enum Frag {
    Seq,
    Stream,
    StreamNoFail,
    SeqNoFail,
    /// F-seq restricted to the fragment of C16: no fallible instruction under a par without an xor in between
    SeqStrict,
}

pub struct Case {
    pub world: World,
    pub history: History,
    pub frag: Frag,
    pub has_streams: bool,
    pub n_calls: usize,
}

pub fn mk_gen(rng: &mut Rng, frag: Frag, thorough: bool) -> GenCfg {
    let n_peers = rng.range(3, 5);
    let budget = if thorough { rng.range(8, 34) } else { rng.range(6, 22) };
    let mut g = match frag {
        Frag::Seq => GenCfg::fseq(n_peers, budget),
        Frag::Stream => GenCfg::fstream(n_peers, budget),
        Frag::StreamNoFail => GenCfg::fstream_nofail(n_peers, budget),
        Frag::SeqNoFail => GenCfg { errors: false, never: false, par_joins: false, ..GenCfg::fseq(n_peers, budget) },
        Frag::SeqStrict => GenCfg { strict_guard: true, ..GenCfg::fseq(n_peers, budget) },
    };
    g.max_depth = if thorough { rng.range(4, 9) } else { rng.range(3, 7) };
    g
}

pub fn mk_sched(rng: &mut Rng) -> SchedCfg {
    SchedCfg {
        max_steps: 200,
        max_dups: rng.below(5),
        dup_bias: [0, 50, 150, 300][rng.below(4)],
        results_with_delivery: [0, 300, 700][rng.below(3)],
        batch_all: [100, 400, 900][rng.below(3)],
        late_results: rng.chance(1, 3),
    }
}

/// Build one case deterministically from (seed, tag, case index).
pub fn build_case(cfg: &Cfg, tag: u64, case: u64, frags: &[Frag]) -> Option<Case> {
    let mut rng = Rng::derive(cfg.seed, tag, case);
    let frag = *rng.pick(frags);
    let g = mk_gen(&mut rng, frag, cfg.thorough);
    let ids = standard_peer_ids(g.n_peers);
    let sc = gen::generate(&mut rng, &g, &ids);
    if air_parser::parse(&sc.air).is_err() {
        // a generated script the parser rejects is a harness defect, never a violation
        return None;
    }
    let max_arr = if cfg.thorough { rng.range(2, 6) } else { rng.range(2, 4) };
    let world = World::new(g.n_peers, sc.air.clone(), Some(sc.ins), &format!("particle-{}-{case}", cfg.seed), max_arr);
    let sched = mk_sched(&mut rng);
    let history = run_random(&world, &mut rng, &sched);
    Some(Case { world, history, frag, has_streams: sc.has_streams, n_calls: sc.n_calls })
}

/// Common bookkeeping about what a history exercised.
pub fn observe(c: &Case, st: &mut Stats) {
    st.inc("histories", 1);
    st.inc("runs", c.history.steps.len() as u64);
    st.seen("schedules", c.history.decisions_hash());
    st.seen("scripts", fnv(c.world.air.as_bytes()));
    if c.history.quiescent {
        st.inc("histories_quiescent", 1);
    }
    if super::taint::first_drop(&c.history).is_some() {
        st.inc("histories_with_dropped_fold_iterations", 1);
        st.inc("runs_on_data_with_dropped_fold_iterations", super::taint::by_step(&c.history).iter().filter(|b| b.0).count() as u64);
    }
    if c.history.cut {
        st.inc("histories_cut_by_step_bound", 1);
    }
    if let Some(ins) = &c.world.script {
        ins.walk(&mut |i| st.label("instruction_kinds", i.kind()));
    }
    for s in &c.history.steps {
        if super::taint::dropped_entries(&s.out) > 0 {
            st.inc("runs_leaving_fold_lore_unclaimed", 1);
        }
        if super::taint::dropped_states(&s.out) > 0 {
            st.inc("runs_dropping_recorded_fold_iterations", 1);
        }
        if super::taint::unreplayed_states(&s.out) > 0 {
            st.inc("runs_dropping_iterations_of_values_not_replayed_yet", 1);
        }
        if super::taint::lost_mapping_states(&s.out) > 0 {
            st.inc("runs_leaving_lore_unclaimed_for_lack_of_a_position_mapping", 1);
        }
        if super::taint::failed_call_left_state(&s.out) {
            st.inc("runs_where_a_failing_call_left_its_sent_state", 1);
        }
        st.label("ret_code_classes", &format!("{:?}", s.class()));
        if let Some(v) = &s.out_v {
            let shape: Vec<u8> = crate::proj::states(v)
                .iter()
                .map(|s| match s {
                    crate::proj::St::Par(..) => b'p',
                    crate::proj::St::CallSent(..) => b's',
                    crate::proj::St::CallExec { .. } => b'e',
                    crate::proj::St::CallFailed(..) => b'f',
                    crate::proj::St::Fold(..) => b'F',
                    crate::proj::St::Ap(..) => b'a',
                    crate::proj::St::CanonSent(..) => b'c',
                    crate::proj::St::CanonExec(..) => b'C',
                    crate::proj::St::Unknown => b'?',
                })
                .collect();
            st.seen("trace_shapes", fnv(&shape));
        }
    }
}

pub fn history_sample(c: &Case, max_steps: usize) -> Value {
    describe(&c.world, &c.history, max_steps)
}

/// Hand-written scripts (peers as @P0..@P3) whose delivery orders are explored exhaustively in every
/// history-based check, in addition to the generated ones: shapes the generator reaches only rarely.
pub const DIRECTED: &[(&str, usize, &str)] = &[
    // two values of one stream share a generation at P1 but not at P2, under a sequential fold whose
    // first iteration waits at P1 (the recorded fold-lore finding, DESIGN.md 12.6)
    ("seq-fold-generation-split", 3, r#"(seq (call "@P1" ("svc" "f1") [] x) (seq (par (seq (call "@P1" ("svc" "f2") [] y) (ap "a" $s)) (call "@P0" ("svc" "f3") [] z)) (seq (ap "seed" $s) (fold $s it (seq (seq (call "@P2" ("svc" "f4") [it] r) (call "@P1" ("svc" "f5") [r] q)) (next it))))))"#),
    // the same with a parallel fold: every value is visited everywhere
    ("par-fold-generation-split", 3, r#"(seq (call "@P1" ("svc" "f1") [] x) (seq (par (seq (call "@P1" ("svc" "f2") [] y) (ap "a" $s)) (call "@P0" ("svc" "f3") [] z)) (seq (ap "seed" $s) (fold $s it (par (seq (call "@P2" ("svc" "f4") [it] r) (call "@P1" ("svc" "f5") [r] q)) (next it))))))"#),
    // appends on three peers, canon on one of them, the canon used afterwards on another
    ("canon-after-remote-appends", 3, r#"(seq (par (call "@P0" ("svc" "f1") [] $s) (par (call "@P1" ("svc" "f2") [] $s) (call "@P2" ("svc" "f3") [] $s))) (seq (canon "@P1" $s #can) (seq (call "@P2" ("svc" "f4") [#can] u) (call "@P0" ("svc" "f5") [#can.length] w))))"#),
    // a failing remote call caught by xor inside a scalar fold in par position
    ("xor-in-par-fold", 3, r#"(seq (call "@P0" ("svc" "arr1") [] xs) (fold xs it (par (xor (call "@P1" ("svc" "e2") [it] a) (call "@P2" ("svc" "f3") [it :error:.$.error_code] b)) (next it))))"#),
    // bounded recursive stream: the fold appends to the stream it iterates
    ("recursive-stream", 3, r#"(seq (call "@P0" ("svc" "f1") [] x) (seq (ap "seed" $s) (fold $s it (seq (xor (match it "seed" (ap "more" $s)) (null)) (seq (call "@P1" ("svc" "f2") [it] $t) (seq (call "@P2" ("svc" "f3") [it] y) (next it)))))))"#),
    // a call is recorded as sent while its argument is not resolvable yet (join); once it is, resolving
    // it fails (lens error) before the trace is consulted, and the xor's right branch meets the recorded
    // state (the recorded failed-call finding, DESIGN.md 12.7)
    ("failed-call-after-join", 2, r#"(xor (seq (par (call "@P0" ("svc" "f1") [] x) (null)) (call "@P1" ("svc" "f2") [x.$.nope])) (par (call "@P0" ("svc" "f3") []) (null)))"#),
    // the left branch of an xor hands a call over to another peer (inside a par whose other side is complete)
    // and then fails in the same run: the peer it forwarded to must still receive the particle
    ("xor-left-forwards-then-fails", 3, r#"(seq (call "@P0" ("svc" "f0") [] x) (xor (seq (par (call "@P1" ("svc" "f1") [x]) (null)) (fail 7 "left fails after forwarding")) (call "@P2" ("svc" "f2") [x])))"#),
    // a fold over a canonicalised stream map with a repeated key, run by a peer that replays the canon from data
    ("canon-map-fold-repeated-keys", 2, r#"(seq (ap ("k1" "a") %m) (seq (ap ("k2" "b") %m) (seq (ap ("k1" "c") %m) (seq (ap ("k3" "d") %m) (seq (ap ("k4" "e") %m) (seq (ap ("k5" "f") %m) (seq (canon "@P0" %m #%cm) (fold #%cm it (seq (call "@P1" ("svc" "f1") [it]) (next it))))))))))"#),
    // a stream map with string and number keys of the same text: both name one field of the map's JSON form
    ("colliding-map-keys", 2, r#"(seq (ap ("42" "s42") %m) (seq (ap (42 "n42") %m) (seq (ap ("7" "s7") %m) (seq (ap (7 "n7") %m) (seq (ap (-1 "n") %m) (seq (canon "@P0" %m #%cm) (seq (call "@P1" ("svc" "f1") [#%cm]) (seq (call "@P0" ("svc" "f2") [#%cm #%cm.length]) (canon "@P1" %m whole)))))))))"#),
    // new-scoped stream inside a stream fold, canonicalised per iteration
    ("new-stream-in-fold", 3, r#"(seq (par (call "@P0" ("svc" "f1") [] $s) (call "@P1" ("svc" "f2") [] $s)) (fold $s it (par (new $n (seq (call "@P2" ("svc" "f3") [it] $n) (seq (canon "@P2" $n #cn) (call "@P0" ("svc" "f4") [#cn] z)))) (next it))))"#),
    // the global stream (and stream map) of a name is first written while a `new` scope of the same name is
    // still being executed: the recursion of a scalar fold sits inside the scope, the global write after it
    ("global-stream-first-used-under-new", 2, r#"(seq (call "@P0" ("svc" "arr1") ["d"] arr) (seq (fold arr i (seq (new $s (seq (ap 1 $s) (next i))) (ap i $s))) (seq (canon "@P0" $s #c) (call "@P1" ("svc" "f2") [#c]))))"#),
    ("global-map-first-used-under-new", 2, r#"(seq (call "@P0" ("svc" "arr1") ["d"] arr) (seq (fold arr i (seq (new %m (seq (ap ("k" 1) %m) (next i))) (ap (i i) %m))) (seq (canon "@P0" %m #%c) (call "@P1" ("svc" "f2") [#%c]))))"#),
    // one stream folded twice in a row; the second fold appends to the stream while it runs (nothing is appended
    // between the end of the first fold and the start of the second)
    ("fold-after-fold-recursive", 3, r#"(seq (seq (call "@P0" ("svc" "f1") [] $s) (fold $s i (seq (call "@P1" ("svc" "f2") [i]) (next i)) (null))) (seq (fold $s j (seq (seq (call "@P1" ("svc" "f3") [j]) (xor (match j.$.k "a" (ap "more" $s)) (null))) (next j)) (null)) (seq (canon "@P1" $s #c) (call "@P2" ("svc" "f4") [#c]))))"#),
    // a stream fold whose last instruction is a call taking the iterator: it runs once per iteration chain, and
    // peers that see the values in different generations build different chains
    ("stream-fold-last-instruction-call", 3, r#"(seq (par (seq (call "@P1" ("svc" "f2") [] y) (ap "a" $s)) (call "@P0" ("svc" "f3") [] z)) (seq (ap "b" $s) (seq (fold $s i (next i) (call "@P2" ("svc" "flast") [i] r)) (call "@P1" ("svc" "fin") []))))"#),
];

pub const DIRECTED_BASE: u64 = 1_000_000_000;

/// Fixed schedules run before the exploration of a directed script (S = start, Dq = deliver queue
/// entry q, Cp:i,j = hand peer p the results of its pending requests i and j).
pub const WITNESS_SCHEDULES: &[(&str, &str)] = &[
    // P2 sees "seed" (from P0) before "a" (from P1); P1, which holds both in one generation, then
    // merges P2's data while its first iteration ("a") still waits for a local call
    ("seq-fold-generation-split", "S D0 C1:1 C1:2 D0 C0:1 D1 C2:1 D0 C2:2 D0 D0 C1:3 D0"),
    // P0 marks f2 as sent while x is unknown, then learns x and fails to resolve x.$.nope
    ("failed-call-after-join", "S C0:1"),
];

fn parse_schedule(text: &str) -> Vec<Decision> {
    text.split_whitespace()
        .filter_map(|t| {
            if t == "S" {
                Some(Decision::Start)
            } else if let Some(q) = t.strip_prefix('D') {
                q.parse().ok().map(|q| Decision::Deliver { q, results: vec![] })
            } else if let Some(r) = t.strip_prefix('C') {
                let (p, ids) = r.split_once(':')?;
                Some(Decision::Complete { peer: p.parse().ok()?, ids: ids.split(',').filter_map(|i| i.parse().ok()).collect() })
            } else {
                None
            }
        })
        .collect()
}

/// Replay a fixed schedule as far as it is applicable to the states the interpreter produces.
fn run_witness_schedule(w: &World, decisions: &[Decision]) -> History {
    let mut st = SimState::new(w.peers.len());
    let mut cache = DecodeCache::default();
    let mut steps = vec![];
    let mut done = vec![];
    for d in decisions {
        let ok = match d {
            Decision::Start => !st.started,
            Decision::Deliver { q, .. } => *q < st.queue.len(),
            Decision::Complete { peer, ids } => *peer < st.hosts.len() && ids.iter().all(|i| st.hosts[*peer].pending.contains_key(i)),
            Decision::Duplicate { i } => *i < st.sent_log.len(),
        };
        if !ok {
            break;
        }
        done.push(d.clone());
        if let Some(s) = st.apply(w, d, &mut cache, steps.len()) {
            steps.push(s);
        }
    }
    let complete = done.len() == decisions.len();
    History { steps, decisions: done, quiescent: st.quiescent(), cut: !complete, dropped_unknown: st.dropped_unknown, final_state: st }
}

/// Explore the delivery orders of the directed scripts exhaustively (no duplication) up to a state
/// budget, calling `f` on every maximal history.
fn run_directed<F>(cfg: &Cfg, tag: u64, f: &F) -> Stats
where
    F: Fn(&Case, u64, &mut Rng, &mut Stats) + Sync,
{
    let mut sub = cfg.clone();
    if let Some(k) = cfg.only_case {
        if k < DIRECTED_BASE {
            return Stats::default();
        }
        sub.only_case = Some(k - DIRECTED_BASE);
    }
    par_cases(&sub, DIRECTED.len() as u64, |idx, st| {
        let Some((name, n_peers, text)) = DIRECTED.get(idx as usize) else { return };
        let ids = standard_peer_ids(*n_peers);
        let mut air = text.to_string();
        for (i, id) in ids.iter().enumerate() {
            air = air.replace(&format!("@P{i}"), id);
        }
        let world = World::new(*n_peers, air, None, &format!("directed-{}-{idx}", cfg.seed), 3);
        let (budget, max_histories) = if cfg.thorough { (40_000, 4_000) } else { (2_000, 120) };
        let mut visit_owned = |history: History, st: &mut Stats| {
            let w2 = World::new(*n_peers, world.air.clone(), None, &world.particle_id, 3);
            let c = Case { world: w2, history, frag: Frag::Stream, has_streams: true, n_calls: 0 };
            st.inc("directed_histories", 1);
            st.label("directed_scripts", name);
            observe(&c, st);
            let mut rng = Rng::derive(cfg.seed ^ 0x5555, tag, DIRECTED_BASE + idx);
            super::taint::set_context(Some(&c.history));
            f(&c, DIRECTED_BASE + idx, &mut rng, st);
            super::taint::set_context(None);
        };
        for (wname, sched) in WITNESS_SCHEDULES {
            if wname == name {
                let h = run_witness_schedule(&world, &parse_schedule(sched));
                if h.cut {
                    st.inc("witness_schedules_not_fully_applicable", 1);
                }
                st.inc("witness_schedules_run", 1);
                visit_owned(h, st);
            }
        }
        // the explorer lends the history: rebuild an owned one for the shared Case type
        let mut visit = |h: &History| {
            let history = run_decisions(&world, &h.decisions);
            visit_owned(history, st)
        };
        let (states, _hist, truncated) = explore_exhaustive_capped(&world, budget, 60, max_histories, &mut visit);
        st.inc("directed_states_explored", states as u64);
        if truncated {
            st.inc("directed_explorations_truncated_by_budget", 1);
        }
    })
}

/// Run `n` honest cases in parallel, calling `f` on each; then the directed scripts.
pub fn run_honest<F>(cfg: &Cfg, tag: u64, n: u64, frags: &[Frag], f: F) -> Stats
where
    F: Fn(&Case, u64, &mut Rng, &mut Stats) + Sync,
{
    let mut all = run_generated(cfg, tag, n, frags, &f);
    all.merge(run_directed(cfg, tag, &f));
    all
}

fn run_generated<F>(cfg: &Cfg, tag: u64, n: u64, frags: &[Frag], f: &F) -> Stats
where
    F: Fn(&Case, u64, &mut Rng, &mut Stats) + Sync,
{
    if matches!(cfg.only_case, Some(k) if k >= DIRECTED_BASE) {
        return Stats::default();
    }
    par_cases(cfg, n, |case, st| {
        let built = crate::invoke::guarded(|| build_case(cfg, tag, case, frags));
        let built = match built {
            Ok(b) => b,
            Err((loc, msg)) => {
                st.inconclusive.push(format!("harness panic while building case {case}: {loc} {msg}"));
                None
            }
        };
        if built.is_none() {
            st.inc("generator_rejected_or_failed", 1);
        }
        if let Some(c) = built {
            observe(&c, st);
            let mut rng = Rng::derive(cfg.seed ^ 0x5555, tag, case);
            super::taint::set_context(Some(&c.history));
            f(&c, case, &mut rng, st);
            super::taint::set_context(None);
            if case < 8 {
                st.sample(history_sample(&c, 12));
            }
        }
    })
}

/// true if the run merged two non-empty, different traces
pub fn is_real_merge(s: &Step) -> bool {
    match (&s.prev_v, &s.cur_v) {
        (Some(p), Some(c)) => {
            let (tp, tc) = (crate::proj::trace(p), crate::proj::trace(c));
            !tp.is_empty() && !tc.is_empty() && tp != tc
        }
        _ => false,
    }
}
