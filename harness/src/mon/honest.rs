//! Shared honest-history workload: generated scripts, honest peers, deterministic services,
//! adversarial scheduler (reordering, duplication, late/batched call results).
use crate::gen::{self, GenCfg};
use crate::report::{par_cases, Cfg, Stats};
use crate::rng::{fnv, Rng};
use crate::sim::*;
use serde_json::Value;

#[derive(Clone, Copy, Debug, PartialEq)]
pub enum Frag {
    Seq,
    Stream,
    StreamNoFail,
    SeqNoFail,
}

pub struct Case {
    pub world: World,
    pub history: History,
    pub frag: Frag,
    pub has_streams: bool,
    pub n_calls: usize,
}

pub fn mk_gen(rng: &mut Rng, frag: Frag, thorough: bool) -> GenCfg {
    let n_peers = rng.range(3, 5);
    let budget = if thorough { rng.range(8, 34) } else { rng.range(6, 22) };
    let mut g = match frag {
        Frag::Seq => GenCfg::fseq(n_peers, budget),
        Frag::Stream => GenCfg::fstream(n_peers, budget),
        Frag::StreamNoFail => GenCfg::fstream_nofail(n_peers, budget),
        Frag::SeqNoFail => GenCfg { errors: false, never: false, par_joins: false, ..GenCfg::fseq(n_peers, budget) },
    };
    g.max_depth = if thorough { rng.range(4, 9) } else { rng.range(3, 7) };
    g
}

pub fn mk_sched(rng: &mut Rng) -> SchedCfg {
    SchedCfg {
        max_steps: 200,
        max_dups: rng.below(5),
        dup_bias: [0, 50, 150, 300][rng.below(4)],
        results_with_delivery: [0, 300, 700][rng.below(3)],
        batch_all: [100, 400, 900][rng.below(3)],
        late_results: rng.chance(1, 3),
    }
}

/// Build one case deterministically from (seed, tag, case index).
pub fn build_case(cfg: &Cfg, tag: u64, case: u64, frags: &[Frag]) -> Option<Case> {
    let mut rng = Rng::derive(cfg.seed, tag, case);
    let frag = *rng.pick(frags);
    let g = mk_gen(&mut rng, frag, cfg.thorough);
    let ids = standard_peer_ids(g.n_peers);
    let sc = gen::generate(&mut rng, &g, &ids);
    if air_parser::parse(&sc.air).is_err() {
        // a generated script the parser rejects is a harness defect, never a violation
        return None;
    }
    let max_arr = if cfg.thorough { rng.range(2, 6) } else { rng.range(2, 4) };
    let world = World::new(g.n_peers, sc.air.clone(), Some(sc.ins), &format!("particle-{}-{case}", cfg.seed), max_arr);
    let sched = mk_sched(&mut rng);
    let history = run_random(&world, &mut rng, &sched);
    Some(Case { world, history, frag, has_streams: sc.has_streams, n_calls: sc.n_calls })
}

/// Common bookkeeping about what a history exercised.
pub fn observe(c: &Case, st: &mut Stats) {
    st.inc("histories", 1);
    st.inc("runs", c.history.steps.len() as u64);
    st.seen("schedules", c.history.decisions_hash());
    st.seen("scripts", fnv(c.world.air.as_bytes()));
    if c.history.quiescent {
        st.inc("histories_quiescent", 1);
    }
    if c.history.cut {
        st.inc("histories_cut_by_step_bound", 1);
    }
    if let Some(ins) = &c.world.script {
        ins.walk(&mut |i| st.label("instruction_kinds", i.kind()));
    }
    for s in &c.history.steps {
        st.label("ret_code_classes", &format!("{:?}", s.class()));
        if let Some(v) = &s.out_v {
            let shape: Vec<u8> = crate::proj::states(v)
                .iter()
                .map(|s| match s {
                    crate::proj::St::Par(..) => b'p',
                    crate::proj::St::CallSent(..) => b's',
                    crate::proj::St::CallExec { .. } => b'e',
                    crate::proj::St::CallFailed(..) => b'f',
                    crate::proj::St::Fold(..) => b'F',
                    crate::proj::St::Ap(..) => b'a',
                    crate::proj::St::CanonSent(..) => b'c',
                    crate::proj::St::CanonExec(..) => b'C',
                    crate::proj::St::Unknown => b'?',
                })
                .collect();
            st.seen("trace_shapes", fnv(&shape));
        }
    }
}

pub fn history_sample(c: &Case, max_steps: usize) -> Value {
    describe(&c.world, &c.history, max_steps)
}

/// Run `n` honest cases in parallel, calling `f` on each.
pub fn run_honest<F>(cfg: &Cfg, tag: u64, n: u64, frags: &[Frag], f: F) -> Stats
where
    F: Fn(&Case, u64, &mut Rng, &mut Stats) + Sync,
{
    par_cases(cfg, n, |case, st| {
        let built = crate::invoke::guarded(|| build_case(cfg, tag, case, frags));
        let built = match built {
            Ok(b) => b,
            Err((loc, msg)) => {
                st.inconclusive.push(format!("harness panic while building case {case}: {loc} {msg}"));
                None
            }
        };
        if built.is_none() {
            st.inc("generator_rejected_or_failed", 1);
        }
        if let Some(c) = built {
            observe(&c, st);
            let mut rng = Rng::derive(cfg.seed ^ 0x5555, tag, case);
            f(&c, case, &mut rng, st);
            if case < 8 {
                st.sample(history_sample(&c, 12));
            }
        }
    })
}

/// true if the run merged two non-empty, different traces
pub fn is_real_merge(s: &Step) -> bool {
    match (&s.prev_v, &s.cur_v) {
        (Some(p), Some(c)) => {
            let (tp, tc) = (crate::proj::trace(p), crate::proj::trace(c));
            !tp.is_empty() && !tc.is_empty() && tp != tc
        }
        _ => false,
    }
}
