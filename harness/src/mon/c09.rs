//! C09: merging never forgets a result.
use super::honest::*;
use crate::invoke::*;
use crate::proj::{self, St};
use crate::report::*;
use serde_json::{json, Value};
use std::collections::BTreeMap;

/// multiset of result ids (executed/failed calls, executed canons) with the content behind them
pub fn knowledge(data: &Value) -> BTreeMap<String, (u64, String)> {
    let mut m: BTreeMap<String, (u64, String)> = BTreeMap::new();
    for s in proj::states(data) {
        let (key, content) = match &s {
            St::CallExec { kind, cid, .. } => {
                if *kind == "unused" {
                    (format!("unused:{cid}"), String::new())
                } else {
                    let c = proj::service_result(data, cid).map(|(v, t, a)| format!("{v}|{t}|{a}")).unwrap_or_else(|| "<missing>".into());
                    (format!("exec:{cid}"), c)
                }
            }
            St::CallFailed(cid) => {
                let c = proj::service_result(data, cid).map(|(v, t, a)| format!("{v}|{t}|{a}")).unwrap_or_else(|| "<missing>".into());
                (format!("failed:{cid}"), c)
            }
            St::CanonExec(cid) => {
                let c = proj::canon_result(data, cid).map(|(t, vals)| format!("{t}|{:?}", vals)).unwrap_or_else(|| "<missing>".into());
                (format!("canon:{cid}"), c)
            }
            _ => continue,
        };
        let e = m.entry(key).or_insert((0, content));
        e.0 += 1;
    }
    m
}

pub fn run(cfg: &Cfg) -> Report {
    let n = cfg.scale(2000, 40000);
    let stats = run_honest(cfg, 9, n, &[Frag::Seq, Frag::Stream, Frag::Stream], |c, case, _rng, st| {
        for s in &c.history.steps {
            if !matches!(s.class(), CodeClass::Success | CodeClass::Farewell | CodeClass::Catchable) {
                continue;
            }
            let (Some(pv), Some(cv), Some(ov)) = (&s.prev_v, &s.cur_v, &s.out_v) else { continue };
            st.inc("merges_checked", 1);
            let (kp, kc, ko) = (knowledge(pv), knowledge(cv), knowledge(ov));
            let shape = |v: &Value| proj::states(v).iter().filter(|s| matches!(s, St::Par(..) | St::Fold(..))).map(|s| format!("{s:?}")).collect::<Vec<_>>();
            if is_real_merge(s) && !kp.is_empty() && !kc.is_empty() {
                st.seen("knowledge_merges", super::c02::input_hash(&s.input));
                if shape(pv) != shape(cv) {
                    st.inc("merges_with_different_par_fold_shapes", 1);
                }
            }
            if matches!(s.class(), CodeClass::Catchable) {
                st.inc("merges_ending_in_catchable_error", 1);
            }
            for (src, k) in [("previous", &kp), ("current", &kc)] {
                for (id, (cnt, content)) in k {
                    match ko.get(id) {
                        Some((ocnt, ocontent)) if ocnt >= cnt && ocontent == content => {}
                        Some((ocnt, ocontent)) => {
                            let sig = if ocontent != content { "content-changed" } else { "count-decreased" };
                            st.violation("C09", sig, &format!("step {} at {}: result {id} occurs {cnt}x in the {src} data but {ocnt}x in the output (content equal: {})", s.idx, c.world.peers[s.peer].name, ocontent == content), case, json!({"step": s.idx, "history": history_sample(c, 40)}));
                        }
                        None => {
                            // a catchable failure may legitimately end the run before later states are replayed
                            if matches!(s.class(), CodeClass::Catchable) {
                                st.inc("results_not_reached_in_catchable_runs", 1);
                                continue;
                            }
                            st.violation("C09", "result-forgotten", &format!("step {} at {}: result {id} is present in the {src} data but missing from the output", s.idx, c.world.peers[s.peer].name), case, json!({"step": s.idx, "history": history_sample(c, 40)}));
                        }
                    }
                }
            }
        }
    });
    Report {
        prop: "C09",
        level: "exploration",
        stats,
        evaluations_key: "merges_checked",
        nontrivial_key: "knowledge_merges",
        rule: "every non-failing run of generated honest histories: the multiset of executed/failed call result ids and executed canon ids of the output must dominate those of the previous and of the current data, with identical content behind each id; non-trivial = both inputs non-empty, different and carrying results; distinct by input hash".into(),
        assumptions: vec!["runs ending in a catchable error are checked for prev/current results up to the failing point only (the property speaks of runs that do not fail)".into()],
    }
}
