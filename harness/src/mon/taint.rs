//! Root-cause tags for three recorded findings. Each tag is computed from a guarded hook event, i.e.
//! from what the interpreter actually did in the observed run, and then follows the data: a run is
//! tagged if it shows the cause itself or if its previous or current data descends from the output
//! of such a run. A violation raised for a tagged step gets the cause's suffix appended to its
//! signature, so that the known-findings file names exactly this cause and nothing else.
//!
//! * `+fold-lore-dropped` -- stream-fold iterations recorded in the merged data are dropped at the
//!   end of the fold because this run never claimed them (`FoldFSM::meet_fold_end`, DESIGN.md 12.6):
//!   either the value was replayed into the stream but its iteration never started ("unvisited": an
//!   earlier value of the same generation waits under `(seq body (next))`), or the value is not in
//!   the stream yet when this peer runs the fold ("unreplayed": peers iterate an enclosing stream
//!   fold in different orders). Lore whose value state WAS consumed but cannot be found through the
//!   position mapping ("lost mapping") is a different matter and is never attributed to the finding.
//! * `+failed-call-left-sent-state` -- a call fails while resolving its arguments (catchable, raised
//!   before the trace is consulted) although an earlier run, which could not resolve the arguments
//!   yet, recorded it as sent: the recorded state stays unconsumed and the next instruction takes it
//!   for its own (DESIGN.md 12.7).
use crate::invoke::RunOutcome;
use crate::rng::fnv;
use crate::sim::History;
use air::verif_hooks::Event;
use std::cell::RefCell;
use std::collections::HashSet;

pub fn dropped_states(out: &RunOutcome) -> u64 {
    out.events
        .iter()
        .map(|e| match e {
            Event::FoldUnclaimedLoreByCause { unvisited_states, unreplayed_states, .. } => unvisited_states + unreplayed_states,
            _ => 0,
        })
        .sum()
}

pub fn unvisited_states(out: &RunOutcome) -> u64 {
    out.events.iter().map(|e| if let Event::FoldUnclaimedLoreByCause { unvisited_states, .. } = e { *unvisited_states } else { 0 }).sum()
}

pub fn unreplayed_states(out: &RunOutcome) -> u64 {
    out.events.iter().map(|e| if let Event::FoldUnclaimedLoreByCause { unreplayed_states, .. } = e { *unreplayed_states } else { 0 }).sum()
}

pub fn lost_mapping_states(out: &RunOutcome) -> u64 {
    out.events.iter().map(|e| if let Event::FoldUnclaimedLoreByCause { lost_mapping_states, .. } = e { *lost_mapping_states } else { 0 }).sum()
}

pub fn dropped_entries(out: &RunOutcome) -> u64 {
    out.events
        .iter()
        .map(|e| match e {
            Event::FoldUnclaimedLore { prev_entries, current_entries, .. } => (prev_entries + current_entries) as u64,
            _ => 0,
        })
        .sum()
}

pub fn failed_call_left_state(out: &RunOutcome) -> bool {
    out.events.iter().any(|e| matches!(e, Event::FailedCallLeavesSentState { .. }))
}

pub fn after_states_unconsumed(out: &RunOutcome) -> u64 {
    out.events.iter().map(|e| if let Event::FoldAfterStatesUnconsumed { states, .. } = e { *states } else { 0 }).sum()
}

pub const SUFFIX: &str = "+fold-lore-dropped";
/// states recorded by the last instruction of a stream fold for an iteration that is not the last of its
/// chain on this peer are left unconsumed and dropped (DESIGN.md 12.10)
pub const SUFFIX_LAST: &str = "+fold-last-instruction-states-dropped";
pub const SUFFIX_CALL: &str = "+failed-call-left-sent-state";

/// per step of the history and per cause: does the run show the cause, or consume data that descends
/// from a run that did
pub fn by_step(h: &History) -> Vec<(bool, bool, bool)> {
    let key = |b: &[u8]| (fnv(b), b.len());
    let mut bad: [HashSet<(u64, usize)>; 3] = [HashSet::new(), HashSet::new(), HashSet::new()];
    let mut out = Vec::with_capacity(h.steps.len());
    for s in &h.steps {
        let own = [dropped_states(&s.out) > 0, failed_call_left_state(&s.out), after_states_unconsumed(&s.out) > 0];
        let mut t = [false, false, false];
        for c in 0..3 {
            t[c] = own[c] || (!s.input.prev.is_empty() && bad[c].contains(&key(&s.input.prev))) || (!s.input.cur.is_empty() && bad[c].contains(&key(&s.input.cur)));
            if t[c] && !s.out.data.is_empty() {
                bad[c].insert(key(&s.out.data));
            }
        }
        out.push((t[0], t[1], t[2]));
    }
    out
}

pub fn first_drop(h: &History) -> Option<usize> {
    h.steps.iter().position(|s| dropped_states(&s.out) > 0)
}

thread_local! {
    static CTX: RefCell<Option<Vec<(bool, bool, bool)>>> = RefCell::new(None);
}

/// Set while the monitors of one honest history run on this thread.
pub fn set_context(h: Option<&History>) {
    CTX.with(|c| *c.borrow_mut() = h.map(by_step));
}

/// Suffix for a violation raised now: `step` is the step the violation is about (history-level
/// violations pass None and are tagged when any step of the history is tagged).
pub fn suffix(prop: &str, step: Option<usize>) -> String {
    // only the properties that speak about what merged data contains, whether peers accept it and
    // whether honest runs fail; violations of any other property in such a history stay untagged
    if !matches!(prop, "C02" | "C03" | "C04" | "C05" | "C07" | "C08" | "C09" | "C19") {
        return String::new();
    }
    CTX.with(|c| match &*c.borrow() {
        None => String::new(),
        Some(v) => {
            let (a, b, l) = match step {
                Some(i) => v.get(i).copied().unwrap_or((false, false, false)),
                None => (v.iter().any(|t| t.0), v.iter().any(|t| t.1), v.iter().any(|t| t.2)),
            };
            // one history may show several causes; the signature names one, the last-instruction cause first
            // (every signature listed for the other two is listed for it as well)
            if l {
                SUFFIX_LAST.to_string()
            } else {
                format!("{}{}", if a { SUFFIX } else { "" }, if b { SUFFIX_CALL } else { "" })
            }
        }
    })
}

/// Does the script hold a fold over a stream or stream map whose last instruction leaves states (anything
/// but null/never)? Such an instruction runs once per iteration chain, and the chains depend on how the peer
/// happened to group the values into generations (DESIGN.md 12.10).
pub fn has_stateful_last_instruction_in_stream_fold(air: &str) -> bool {
    use air_parser::ast::Instruction as I;
    fn stateful(i: &I<'_>) -> bool {
        !matches!(i, I::Null(_) | I::Never(_))
    }
    fn walk(i: &I<'_>) -> bool {
        match i {
            I::Seq(b) => walk(&b.0) || walk(&b.1),
            I::Par(b) => walk(&b.0) || walk(&b.1),
            I::Xor(b) => walk(&b.0) || walk(&b.1),
            I::Match(b) => walk(&b.instruction),
            I::MisMatch(b) => walk(&b.instruction),
            I::New(b) => walk(&b.instruction),
            I::FoldScalar(b) => walk(&b.instruction) || b.last_instruction.as_ref().map(|l| walk(l)).unwrap_or(false),
            I::FoldStream(b) => walk(&b.instruction) || b.last_instruction.as_ref().map(|l| stateful(l)).unwrap_or(false),
            I::FoldStreamMap(b) => walk(&b.instruction) || b.last_instruction.as_ref().map(|l| stateful(l)).unwrap_or(false),
            _ => false,
        }
    }
    match air_parser::parse(air) {
        Ok(ast) => walk(&ast),
        Err(_) => false,
    }
}

/// Script-level tag for C08: which calls such a last instruction makes depends on the delivery order.
pub const SUFFIX_LAST_SCRIPT: &str = "@script-with-stateful-last-instruction-in-a-stream-fold";
