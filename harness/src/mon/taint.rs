//! Root-cause tag for the recorded finding "stream-fold iterations that are recorded in the merged
//! data but are not claimed by any iteration of this run are dropped from the merged trace"
//! (`FoldFSM::meet_fold_end`, DESIGN.md 12.6). The tag is computed from the guarded hook event
//! `FoldUnclaimedLore`, i.e. from what the interpreter actually did in the observed run, and then
//! follows the data: a run is tagged if it dropped recorded states itself or if its previous or
//! current data descends from the output of such a run. A violation raised for a tagged step gets
//! the suffix `+fold-lore-dropped` appended to its signature, so that the known-findings file can
//! name exactly this cause and nothing else.
use crate::invoke::RunOutcome;
use crate::rng::fnv;
use crate::sim::History;
use air::verif_hooks::Event;
use std::cell::RefCell;
use std::collections::HashSet;

/// number of trace states of the previous/current data that the run's stream folds dropped because
/// the iteration of a value that WAS replayed into the new trace never started in this run (the
/// recorded finding). Lore left unclaimed because its value has no position in the new trace at all
/// is a different matter and is never attributed to the finding (see `unmapped_states`).
pub fn dropped_states(out: &RunOutcome) -> u64 {
    out.events
        .iter()
        .map(|e| match e {
            Event::FoldUnclaimedLoreByCause { unvisited_states, .. } => *unvisited_states,
            _ => 0,
        })
        .sum()
}

pub fn unmapped_states(out: &RunOutcome) -> u64 {
    out.events
        .iter()
        .map(|e| match e {
            Event::FoldUnclaimedLoreByCause { unmapped_states, .. } => *unmapped_states,
            _ => 0,
        })
        .sum()
}

pub fn dropped_entries(out: &RunOutcome) -> u64 {
    out.events
        .iter()
        .map(|e| match e {
            Event::FoldUnclaimedLore { prev_entries, current_entries, .. } => (prev_entries + current_entries) as u64,
            _ => 0,
        })
        .sum()
}

/// per step of the history: does the run drop recorded fold iterations, or consume data that
/// descends from a run that did
pub fn by_step(h: &History) -> Vec<bool> {
    let mut bad: HashSet<(u64, usize)> = HashSet::new();
    let key = |b: &[u8]| (fnv(b), b.len());
    let mut out = Vec::with_capacity(h.steps.len());
    for s in &h.steps {
        let t = dropped_states(&s.out) > 0 || (!s.input.prev.is_empty() && bad.contains(&key(&s.input.prev))) || (!s.input.cur.is_empty() && bad.contains(&key(&s.input.cur)));
        if t && !s.out.data.is_empty() {
            bad.insert(key(&s.out.data));
        }
        out.push(t);
    }
    out
}

pub fn first_drop(h: &History) -> Option<usize> {
    h.steps.iter().position(|s| dropped_states(&s.out) > 0)
}

pub const SUFFIX: &str = "+fold-lore-dropped";

thread_local! {
    static CTX: RefCell<Option<Vec<bool>>> = RefCell::new(None);
}

/// Set while the monitors of one honest history run on this thread.
pub fn set_context(h: Option<&History>) {
    CTX.with(|c| *c.borrow_mut() = h.map(by_step));
}

/// Suffix for a violation raised now: `step` is the step the violation is about (history-level
/// violations pass None and are tagged when any step of the history is tagged).
pub fn suffix(prop: &str, step: Option<usize>) -> &'static str {
    // only the properties that speak about what merged data contains and whether peers accept it;
    // violations of any other property in such a history are reported untagged
    if !matches!(prop, "C02" | "C03" | "C04" | "C05" | "C07" | "C08" | "C09" | "C19") {
        return "";
    }
    CTX.with(|c| match &*c.borrow() {
        None => "",
        Some(v) => {
            let t = match step {
                Some(i) => v.get(i).copied().unwrap_or(false),
                None => v.iter().any(|b| *b),
            };
            if t { SUFFIX } else { "" }
        }
    })
}
