//! Property monitors. Each `cNN::run(cfg) -> Report`.
pub mod honest;
pub mod late;
pub mod taint;
pub mod c01;
pub mod c02;
pub mod c03;
pub mod c04;
pub mod c05;
pub mod c06;
pub mod c07;
pub mod c08;
pub mod c09;
pub mod c10;
pub mod c11;
pub mod c12;
pub mod c13;
pub mod streams;
pub mod c14;
pub mod c15;
pub mod c16;
pub mod c17;
pub mod c17canon;
pub mod c18;
pub mod c19;
pub mod c20;
pub mod c21;
pub mod c22;
pub mod c23;
pub mod c24;
pub mod c25;
pub mod c26;
pub mod c27;
pub mod c28;

use crate::report::{Cfg, Report};

pub fn dispatch(prop: &str, cfg: &Cfg) -> Option<Report> {
    Some(match prop {
        "C01" => c01::run(cfg),
        "C02" => c02::run(cfg),
        "C03" => c03::run(cfg),
        "C04" => c04::run(cfg),
        "C05" => c05::run(cfg),
        "C06" => c06::run(cfg),
        "C07" => c07::run(cfg),
        "C08" => c08::run(cfg),
        "C09" => c09::run(cfg),
        "C10" => c10::run(cfg),
        "C11" => c11::run(cfg),
        "C12" => c12::run(cfg),
        "C13" => c13::run(cfg),
        "C14" => c14::run(cfg),
        "C15" => c15::run(cfg),
        "C16" => c16::run(cfg),
        "C17" => c17::run(cfg),
        "C18" => c18::run(cfg),
        "C19" => c19::run(cfg),
        "C20" => c20::run(cfg),
        "C21" => c21::run(cfg),
        "C22" => c22::run(cfg),
        "C23" => c23::run(cfg),
        "C24" => c24::run(cfg),
        "C25" => c25::run(cfg),
        "C26" => c26::run(cfg),
        "C27" => c27::run(cfg),
        "C28" => c28::run(cfg),
        _ => return None,
    })
}
