//! C01 (stub, filled in below)
use serde_json::{json, Value};
pub fn worker_case(_case: &Value) -> Value {
    json!({})
}
