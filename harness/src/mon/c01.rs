//! C01: the interpreter never crashes or needs disproportionate memory on adversarial input; the
//! other entry points that accept untrusted text/bytes are total. Cases run in isolated worker
//! processes under a panic hook and a counting allocator.
use super::honest::*;
use crate::invoke::*;
use crate::proj;
use crate::report::*;
use crate::rng::Rng;
use crate::sentry::{run_isolated, CaseResult};
use crate::sim::*;
use crate::tamper;
use serde_json::{json, Value};
use std::time::Duration;

pub const MEM_BASE: usize = 64 << 20;
pub const MEM_PER_BYTE: usize = 256;
pub const MEM_CAP: usize = 2 << 30;

fn input_bytes(i: &RunInput) -> usize {
    let cr = match &i.call_results {
        CallResultsIn::Map(m) => m.iter().map(|(k, v)| k.len() + v.1.len() + 8).sum(),
        CallResultsIn::Raw(b) => b.len(),
    };
    i.air.len() + i.prev.len() + i.cur.len() + cr
}

// ---------------------------------------------------------------- worker side

pub fn worker_case(case: &Value) -> Value {
    let kind = case.get("kind").and_then(|k| k.as_str()).unwrap_or("");
    let base = crate::alloc::begin_case();
    match kind {
        "exec" => {
            let input: RunInput = match serde_json::from_value(case["input"].clone()) {
                Ok(i) => i,
                Err(e) => return json!({"harness_error": e.to_string()}),
            };
            let out = invoke(&input);
            let (peak, largest) = crate::alloc::end_case(base);
            let given: Vec<(String, i32, String)> = match &input.call_results {
                CallResultsIn::Map(m) => m.iter().map(|(k, v)| (k.clone(), v.0, v.1.clone())).collect(),
                _ => vec![],
            };
            let honest_results = case.get("honest_results").and_then(|b| b.as_bool()).unwrap_or(false);
            let c02 = crate::mon::c02::check_outcome(&input, &out, if honest_results { &given } else { &[] }, &input.particle_id);
            // one honest follow-up step on whatever came back
            let mut follow = Value::Null;
            if case.get("follow").and_then(|b| b.as_bool()).unwrap_or(false) && out.ret_code != PANIC_CODE {
                let mut i2 = input.clone();
                i2.prev = out.data.clone();
                i2.cur = vec![];
                i2.call_results = CallResultsIn::empty();
                let b2 = crate::alloc::begin_case();
                let o2 = invoke(&i2);
                let (p2, l2) = crate::alloc::end_case(b2);
                follow = json!({"ret_code": o2.ret_code, "msg": proj::trunc(&o2.error_message, 300), "peak": p2, "largest": l2});
            }
            json!({"ret_code": out.ret_code, "msg": proj::trunc(&out.error_message, 300), "peak": peak, "largest": largest,
                   "input_bytes": input_bytes(&input), "c02": c02.map(|(s, w)| json!([s, w])), "follow": follow,
                   "accepted": matches!(classify(out.ret_code), CodeClass::Success | CodeClass::Catchable | CodeClass::Farewell)})
        }
        "parse" | "beautify" | "beautify_patterns" | "hr" => {
            let text = case.get("text").and_then(|t| t.as_str()).unwrap_or("").to_string();
            let bytes: Vec<u8> = case.get("bytes").and_then(|b| b.as_str()).map(|s| {
                use base64::Engine;
                base64::engine::general_purpose::STANDARD.decode(s.as_bytes()).unwrap_or_default()
            }).unwrap_or_default();
            let r = guarded(|| match kind {
                "parse" => air_parser::parse(&text).is_ok(),
                // the rendered text grows with depth x lines by design of the format, so it is streamed
                // into a counting sink: what is measured is the beautifier's own memory
                "beautify" => {
                    let small = text.len() < 20_000 && air_beautifier::beautify_to_string(&text).is_ok();
                    let mut sink = CountingSink(0);
                    air_beautifier::beautify(&text, &mut sink, false).is_ok() || small
                }
                "beautify_patterns" => {
                    let mut sink = CountingSink(0);
                    air_beautifier::beautify(&text, &mut sink, true).is_ok()
                }
                _ => air::to_human_readable_data(bytes.clone()).is_ok(),
            });
            let (peak, largest) = crate::alloc::end_case(base);
            match r {
                Ok(ok) => json!({"ok": ok, "peak": peak, "largest": largest, "input_bytes": text.len() + bytes.len()}),
                Err((loc, msg)) => json!({"panic": [loc, proj::trunc(&msg, 200)], "peak": peak, "largest": largest, "input_bytes": text.len() + bytes.len()}),
            }
        }
        _ => json!({"harness_error": format!("unknown case kind {kind}")}),
    }
}

struct CountingSink(u64);
impl std::io::Write for CountingSink {
    fn write(&mut self, buf: &[u8]) -> std::io::Result<usize> {
        self.0 += buf.len() as u64;
        Ok(buf.len())
    }
    fn flush(&mut self) -> std::io::Result<()> {
        Ok(())
    }
}

// ---------------------------------------------------------------- parent side

fn b64(b: &[u8]) -> String {
    use base64::Engine;
    base64::engine::general_purpose::STANDARD.encode(b)
}

fn class_of(label: &str) -> String {
    let c: String = label.chars().take_while(|c| c.is_ascii_alphabetic() || *c == '_' || *c == '-' || *c == '.' || *c == ':' || *c == '+').collect();
    c.trim_end_matches('.').to_string()
}

fn norm_loc(loc: &str) -> String {
    let l = loc.strip_prefix("/repo/").unwrap_or(loc);
    // third-party crates: keep crate dir + file:line
    if let Some(i) = l.find("/registry/src/") {
        let rest = &l[i + "/registry/src/".len()..];
        return rest.splitn(2, '/').nth(1).unwrap_or(rest).to_string();
    }
    l.to_string()
}

struct Planned {
    case: Value,
    label: String,
    group: &'static str,
}

fn exec_case(input: &RunInput, follow: bool, honest_results: bool) -> Value {
    json!({"kind": "exec", "input": serde_json::to_value(input).unwrap(), "follow": follow, "honest_results": honest_results})
}

fn nest(kw: &str, n: usize) -> String {
    let mut s = String::new();
    for _ in 0..n {
        s.push_str(&format!("({kw} (null) "));
    }
    s.push_str("(null)");
    s.push_str(&")".repeat(n));
    s
}

fn hostile_scripts(rng: &mut Rng, me: &str, big: bool) -> Vec<(String, String)> {
    let mut v: Vec<(String, String)> = vec![];
    let sizes: &[usize] = if big { &[100, 1000, 10_000, 100_000] } else { &[100, 1000, 10_000] };
    for &n in sizes {
        for kw in ["seq", "par", "xor"] {
            v.push((format!("deep-{kw}.{n}"), nest(kw, n)));
        }
        let mut s = String::new();
        for i in 0..n {
            s.push_str(&format!("(new v{i} "));
        }
        s.push_str("(null)");
        s.push_str(&")".repeat(n));
        v.push((format!("deep-new.{n}"), s));
        let mut s = String::new();
        for _ in 0..n {
            s.push_str("(match 1 1 ");
        }
        s.push_str("(null)");
        s.push_str(&")".repeat(n));
        v.push((format!("deep-match.{n}"), s));
        v.push((format!("long-name.{n}"), format!("(call \"{me}\" (\"s\" \"f\") [] {})", "x".repeat(n))));
        v.push((format!("many-args.{n}"), format!("(call \"{me}\" (\"s\" \"f\") [{}])", "1 ".repeat(n))));
        v.push((format!("long-lens.{n}"), format!("(seq (call \"{me}\" (\"s\" \"f\") [] x) (call \"{me}\" (\"s\" \"g\") [x.$.{}]))", "a.".repeat(n.min(5000)).trim_end_matches('.'))));
    }
    // name clashes and odd-but-parsable scripts
    for (l, s) in [
        ("clash-fold-x-x", "(seq (call \"@\" (\"s\" \"arr1\") [] x) (fold x x (seq (null) (next x))))"),
        ("clash-iter-scalar", "(seq (call \"@\" (\"s\" \"arr1\") [] x) (fold x i (seq (call \"@\" (\"s\" \"f2\") [] i) (next i))))"),
        ("clash-out-iter", "(seq (call \"@\" (\"s\" \"arr1\") [] x) (fold x i (seq (ap i i) (next i))))"),
        ("clash-new-stream-canon", "(new $s (seq (ap 1 $s) (seq (canon \"@\" $s #s) (new #s (call \"@\" (\"s\" \"f2\") [#s])))))"),
        ("clash-canon-name-scalar", "(seq (ap 1 $s) (seq (canon \"@\" $s #can) (seq (ap 2 can) (call \"@\" (\"s\" \"f2\") [can #can]))))"),
        ("fold-canon-map-lens", "(seq (ap (\"k\" 1) %m) (seq (canon \"@\" %m #%cm) (fold #%cm.$.k i (seq (call \"@\" (\"s\" \"f2\") [i]) (next i)))))"),
        ("canon-map-scalar", "(seq (ap (\"k\" 1) %m) (seq (canon \"@\" %m sc) (call \"@\" (\"s\" \"f2\") [sc sc.$.k])))"),
        ("fail-last-error-empty", "(xor (fail %last_error%) (fail :error:))"),
        ("fail-number-codes", "(xor (fail 9223372036854775807 \"m\") (fail -9223372036854775808 \"m\"))"),
        ("i64-overflow-literal", "(call \"@\" (\"s\" \"f2\") [99999999999999999999999 1e999 -0.0])"),
        ("next-outside", "(seq (null) (next i))"),
        ("lens-on-literal-peer", "(call \"@\".$.x (\"s\" \"f2\") [])"),
        ("ttl-timestamp-match", "(match %ttl% %timestamp% (null))"),
        ("unicode-lens", "(seq (call \"@\" (\"s\" \"f1\") [] a) (call \"@\" (\"s\" \"f2\") [a.$.\u{e9}.[0]] x))"),
        ("unicode-name", "(call \"@\" (\"s\" \"f1\") [] \u{e9}x)"),
        ("stream-map-int-keys", "(seq (ap (-1 1) %m) (seq (ap (9223372036854775807 2) %m) (canon \"@\" %m #%c)))"),
    ] {
        v.push((l.to_string(), s.replace('@', me)));
    }
    // token soup
    let toks = ["(", ")", "[", "]", "seq", "par", "xor", "call", "fold", "next", "new", "ap", "canon", "fail", "match", "mismatch", "null", "never", "\"a\"", "x", "$s", "%m", "#c", "#%c", "x.$.a", "x.$.[0]", ".length", "%init_peer_id%", "%last_error%", ":error:", "%ttl%", "1", "-1", "1.5", "true", "\u{e9}", "\"", "\\", "\n", "\u{0}", "#", "%", "$", ".$", "!"];
    for k in 0..40 {
        let n = rng.range(1, 40);
        let s: String = (0..n).map(|_| format!("{} ", rng.pick(&toks))).collect();
        v.push((format!("token-soup.{k}"), s));
    }
    v
}

fn mutate_text(rng: &mut Rng, s: &str) -> String {
    let mut chars: Vec<char> = s.chars().collect();
    for _ in 0..rng.range(1, 4) {
        if chars.is_empty() {
            break;
        }
        let i = rng.below(chars.len());
        match rng.below(8) {
            0 => {
                chars.remove(i);
            }
            1 => chars.insert(i, *rng.pick(&['(', ')', '[', ']', '"', '.', '$', '#', '%', '!', '\u{e9}', '\u{1F600}', '\u{0}', '\n', '-', '9'])),
            2 => chars[i] = *rng.pick(&['(', ')', '[', ']', '"', '.', '$', '#', '%', '\u{e9}', ' ', '0']),
            3 => {
                let j = rng.below(chars.len());
                chars.swap(i, j);
            }
            4 => {
                let n = rng.below(chars.len() - i) + 1;
                let chunk: Vec<char> = chars[i..(i + n).min(chars.len())].to_vec();
                let at = rng.below(chars.len());
                for (k, c) in chunk.into_iter().enumerate() {
                    chars.insert((at + k).min(chars.len()), c);
                }
            }
            5 => {
                chars.truncate(i);
            }
            6 => {
                for c in "99999999999999999999".chars() {
                    chars.insert(i, c);
                }
            }
            _ => {
                for c in ".$.\u{e9}".chars().rev() {
                    chars.insert(i, c);
                }
            }
        }
    }
    chars.into_iter().collect()
}

/// A script that builds, without any service, a value nested `n` levels deep: every canon result becomes the only
/// element of the next stream.
pub fn nested_canon_script(n: usize) -> String {
    let mut parts = vec!["(ap 1 $s0)".to_string(), "(canon \"@P0\" $s0 #c0)".to_string()];
    for k in 1..n {
        parts.push(format!("(ap #c{} $s{k})", k - 1));
        parts.push(format!("(canon \"@P0\" $s{k} #c{k})"));
    }
    parts.push("(call \"@P1\" (\"s\" \"str1\") [] z)".to_string());
    let mut s = parts.pop().unwrap();
    while let Some(p) = parts.pop() {
        s = format!("(seq {p} {s})");
    }
    s
}

/// Scripts (peers @P0, @P1) driven to the end with the service model.
const DRIVEN_SCRIPTS: &[(&str, &str)] = &[
    // the `next` of a stream fold sits in an inner fold and runs once per inner iteration
    ("next-twice-canon-inner", r#"(seq (seq (ap "a" $s) (seq (ap 1 $t) (seq (ap 2 $t) (canon "@P0" $t #t)))) (fold $s i (fold #t j (par (next j) (next i)))))"#),
    ("next-twice-stream-inner", r#"(seq (seq (ap 1 $t) (seq (fold $t q (null)) (ap 2 $t))) (seq (ap "x" $s) (fold $s i (fold $t k (seq (null) (next i))))))"#),
    ("next-twice-scalar-inner", r#"(seq (seq (call "@P0" ("s" "arr1") ["d"] arr) (ap "x" $s)) (fold $s i (fold arr j (par (next j) (next i)))))"#),
    ("next-twice-seq", r#"(seq (seq (call "@P0" ("s" "arr1") ["d"] arr) (ap "x" $s)) (fold $s i (fold arr j (seq (next j) (next i)))))"#),
    ("next-outer-scalar-twice", r#"(seq (call "@P0" ("s" "arr1") ["d"] arr) (fold arr i (fold arr j (par (next j) (next i)))))"#),
    ("next-outer-map-twice", r#"(seq (seq (ap ("k" 1) %m) (seq (ap 1 $t) (seq (ap 2 $t) (canon "@P0" $t #t)))) (fold %m i (fold #t j (par (next j) (next i)))))"#),
    // a scalar and a fold iterator of one name
    ("clash-scalar-then-iterator", r#"(seq (ap 1 i) (seq (ap 1 $s) (seq (canon "@P0" $s #c) (fold #c i (ap i y)))))"#),
    ("clash-iterator-then-ap", r#"(seq (ap 1 $s) (seq (canon "@P0" $s #c) (fold #c i (seq (ap 1 i) (ap i y)))))"#),
    ("clash-iterator-then-canon-map-scalar", r#"(seq (ap ("k" 1) %m) (seq (ap 1 $s) (seq (canon "@P0" $s #c) (fold #c i (seq (canon "@P0" %m i) (ap i y))))))"#),
    ("clash-iterator-new", r#"(seq (ap 1 $s) (seq (canon "@P0" $s #c) (fold #c i (new i (seq (ap 2 i) (ap i y))))))"#),
    ("clash-stream-iterator-then-ap", r#"(seq (ap 1 $s) (fold $s i (seq (ap 1 i) (seq (ap i y) (next i)))))"#),
    ("clash-nested-same-iterator", r#"(seq (ap 1 $s) (seq (canon "@P0" $s #c) (fold #c i (fold #c i (seq (ap i y) (next i))))))"#),
    // a scalar under new that is read before the pending call has set it
    ("new-scalar-read-before-set", r#"(new x (seq (par (call "@P1" ("s" "num1") [] x) (null)) (xor (call "@P0" ("s" "str1") [x]) (call "@P0" ("s" "str2") []))))"#),
];

/// Valid JSON of every type, as a service may legally return it.
const SHAPE_POOL: &[&str] = &[
    "null", "true", "false", "0", "-1", "1", "1.5", "-0.0", "1e308", "18446744073709551615", "9223372036854775808", "-9223372036854775808",
    "18446744073709551616", "\"\"", "\"a\"", "\"0\"", "\"$\"", "\"12D3KooWNotAPeerId\"", "\"\\u0000\"", "\"\\ud83d\\ude00\"", "[]", "[[]]", "[null]", "[1,\"a\",{}]",
    "[[1,2],[3]]", "{}", "{\"a\":null}", "{\"\":1}", "{\"a\":{\"b\":[1,2]},\"k\":\"a\",\"i\":0,\"p\":\"x\"}", "{\"error_code\":0,\"message\":\"m\"}",
    "{\"error_code\":18446744073709551615,\"message\":\"m\"}", "{\"error_code\":-1,\"message\":null}", "{\"error_code\":1.0,\"message\":\"m\"}",
    "{\"error_code\":10000,\"message\":\"m\",\"instruction\":\"i\",\"peer_id\":\"p\"}", "[{\"e\":1,\"p\":2,\"i\":\"x\"}]", "[{\"p\":null}]",
    "{\"tag\":[],\"a\":[],\"k\":0,\"i\":\"a\",\"p\":[]}", "[\"k\",\"k\",\"k\"]", "[0,0,0,0]", "4294967295", "4294967296", "-4294967296", "[4294967296]",
];

fn plan_from_history(c: &Case, rng: &mut Rng, out: &mut Vec<Planned>, per_step: usize, sweep: bool) {
    let w = &c.world;
    if sweep {
        // systematic fold-lore edits on signed data: every subtrace descriptor of every fold of the last
        // few deliveries gets positions at and beyond the end of the trace, with its length kept or zeroed
        // (trace positions are not covered by signatures, so the data still verifies)
        for s in c.history.steps.iter().rev().filter(|s| !s.input.cur.is_empty()).take(3) {
            let Ok(view) = proj::decode(&s.input.cur) else { continue };
            let tlen = proj::trace(&view.data).len() as u64;
            for (i, st) in proj::states(&view.data).iter().enumerate() {
                let proj::St::Fold(lore) = st else { continue };
                for k in 0..lore.len().min(4) {
                    for d in 0..2 {
                        for pos in [tlen, tlen + 1, tlen + 7, 0x8000_0000u64, 0xffff_ffff] {
                            for zero_len in [true, false] {
                                let mut data = view.data.clone();
                                data["trace"][i]["fold"]["lore"][k]["desc"][d]["pos"] = json!(pos);
                                if zero_len {
                                    data["trace"][i]["fold"]["lore"][k]["desc"][d]["len"] = json!(0);
                                }
                                if let Ok(bytes) = proj::encode_with_versions(&data, &view.data_version, &view.interpreter_version) {
                                    let mut input = s.input.clone();
                                    input.cur = bytes;
                                    out.push(Planned { case: exec_case(&input, true, true), label: format!("tamper:fold[{i}].lore[{k}].desc[{d}].pos={pos}{}", if zero_len { ",len=0" } else { "" }), group: "signed-tamper" });
                                }
                            }
                        }
                    }
                }
            }
        }
        // fold lore whose value position names a state that is not a stream value (the fold itself, a par, a
        // call), with a later entry left with fewer than two descriptors
        for s in c.history.steps.iter().rev().filter(|s| !s.input.cur.is_empty()).take(2) {
            let Ok(view) = proj::decode(&s.input.cur) else { continue };
            let tlen = proj::trace(&view.data).len();
            for (i, st) in proj::states(&view.data).iter().enumerate() {
                let proj::St::Fold(lore) = st else { continue };
                if lore.is_empty() {
                    continue;
                }
                for target in (0..tlen).take(12) {
                    for keep in [0usize, 1] {
                        let mut data = view.data.clone();
                        data["trace"][i]["fold"]["lore"][0]["pos"] = json!(target);
                        let extra = json!({"pos": 0, "desc": (0..keep).map(|_| json!({"pos": 0, "len": 0})).collect::<Vec<_>>()});
                        if let Some(a) = data["trace"][i]["fold"]["lore"].as_array_mut() {
                            a.push(extra);
                        }
                        if let Ok(bytes) = proj::encode_with_versions(&data, &view.data_version, &view.interpreter_version) {
                            let mut input = s.input.clone();
                            input.cur = bytes;
                            out.push(Planned { case: exec_case(&input, true, true), label: format!("tamper:fold[{i}].lore[0].pos={target}+short-entry({keep})"), group: "signed-tamper" });
                        }
                    }
                }
            }
        }
        // systematic single-bit flips over the inner (rkyv) data of the last delivery: lengths, relative
        // pointers and shared-pointer metadata are each hit by some flip
        if let Some(s) = c.history.steps.iter().rev().find(|s| !s.input.cur.is_empty() && !s.input.prev.is_empty()) {
            if let (Ok(inner), Ok(view)) = (proj::inner_bytes(&s.input.cur), proj::decode(&s.input.cur)) {
                let bits = inner.len() * 8;
                let stride = (bits / 1500).max(1);
                let mut b = rng.below(stride);
                while b < bits {
                    let mut m = inner.clone();
                    m[b / 8] ^= 1 << (b % 8);
                    if let Ok(cur) = proj::wrap_inner(&m, &view.data_version, &view.interpreter_version) {
                        let mut input = s.input.clone();
                        input.cur = cur;
                        input.call_results = CallResultsIn::empty();
                        out.push(Planned { case: exec_case(&input, false, false), label: "bitflip:inner".into(), group: "byte-level" });
                    }
                    b += stride;
                }
            }
        }
    }
    // results of the wrong JSON type for the position the script uses them in (fold iterables, lenses, peer
    // ids, error objects, map keys, match operands): every honest step that hands results over is re-run with
    // the same ids and values drawn from a pool of valid JSON of every type
    for s in &c.history.steps {
        let CallResultsIn::Map(honest) = &s.input.call_results else { continue };
        if honest.is_empty() {
            continue;
        }
        for _ in 0..per_step {
            let mut m = honest.clone();
            let mut changed = false;
            for v in m.values_mut() {
                if rng.chance(2, 3) {
                    v.1 = rng.pick(SHAPE_POOL).to_string();
                    if rng.chance(1, 6) {
                        v.0 = *rng.pick(&[1, -1, i32::MAX, i32::MIN]);
                    }
                    changed = true;
                }
            }
            if changed {
                let mut input = s.input.clone();
                input.call_results = CallResultsIn::Map(m);
                out.push(Planned { case: exec_case(&input, true, false), label: "call-results:wrong-shape".into(), group: "hostile-call-results" });
            }
        }
    }
    // request-sent states are not signed: current data (a copy of the peer's own previous data) in which some
    // other pending call claims the id of a result handed over in this very run, including calls whose
    // arguments are still unknown
    for s in &c.history.steps {
        let CallResultsIn::Map(honest) = &s.input.call_results else { continue };
        if honest.is_empty() || s.input.prev.is_empty() {
            continue;
        }
        let Ok(view) = proj::decode(&s.input.prev) else { continue };
        let me_id = &w.peers[s.peer].id;
        let sent: Vec<usize> = proj::states(&view.data).iter().enumerate().filter(|(_, st)| matches!(st, proj::St::CallSent(..))).map(|(i, _)| i).collect();
        for pos in sent.iter().take(6) {
            for id in honest.keys().take(2) {
                let Ok(idn) = id.parse::<u64>() else { continue };
                let mut data = view.data.clone();
                data["trace"][*pos] = json!({"call": {"sent_by": {"PeerIdWithCallId": {"peer_id": me_id, "call_id": idn}}}});
                if let Ok(bytes) = proj::encode_with_versions(&data, &view.data_version, &view.interpreter_version) {
                    let mut input = s.input.clone();
                    input.cur = bytes;
                    out.push(Planned { case: exec_case(&input, true, false), label: "tamper:call-id-claimed-by-another-call".into(), group: "signed-tamper" });
                }
            }
        }
    }
    for s in &c.history.steps {
        let Some(cv) = &s.cur_v else { continue };
        if s.input.cur.is_empty() || proj::trace(cv).is_empty() {
            continue;
        }
        let attacker = match s.from {
            Some(a) => &w.peers[a],
            None => continue,
        };
        let view = match proj::decode(&s.input.cur) {
            Ok(v) => v,
            Err(_) => continue,
        };
        for _ in 0..per_step {
            // structure-aware signed tampering
            let mut data = view.data.clone();
            let mut labels = vec![];
            for _ in 0..rng.range(1, 3) {
                // a tamper operation that does not fit the (already tampered) structure is skipped, not run
                let before = data.clone();
                match crate::invoke::guarded(|| tamper::mutate_structure(rng, &mut data, &attacker.id)) {
                    Ok(Some(l)) => labels.push(l),
                    Ok(None) => {}
                    Err(_) => data = before,
                }
            }
            if labels.is_empty() {
                continue;
            }
            let repaired = rng.chance(4, 5);
            if repaired {
                tamper::repair(&mut data);
                tamper::resign(&mut data, attacker, &w.particle_id);
            }
            let enc = proj::encode_with_versions(&data, &view.data_version, &view.interpreter_version);
            let label = format!("tamper{}:{}", if repaired { "+resign" } else { "" }, labels.join("+"));
            match enc {
                Ok(bytes) => {
                    let mut input = s.input.clone();
                    input.cur = bytes;
                    out.push(Planned { case: exec_case(&input, true, true), label, group: "signed-tamper" });
                }
                Err(_) => {
                    // not representable in the typed format (e.g. wrong field type): skipped, counted by the caller
                    out.push(Planned { case: Value::Null, label, group: "unencodable" });
                }
            }
        }
        // byte-level
        if rng.chance(1, 2) {
            let mut input = s.input.clone();
            let which = rng.below(4);
            let label;
            match which {
                0 => {
                    input.cur = tamper::mutate_bytes(rng, &s.input.cur);
                    label = "bytes:envelope";
                }
                1 => {
                    // mutate the inner (rkyv) bytes, keep the envelope intact
                    let inner = proj::inner_bytes(&s.input.cur).unwrap_or_default();
                    let m = tamper::mutate_bytes(rng, &inner);
                    input.cur = proj::wrap_inner(&m, &view.data_version, &view.interpreter_version).unwrap_or_default();
                    label = "bytes:inner";
                }
                2 => {
                    let raw = match &s.input.call_results {
                        CallResultsIn::Map(m) => encode_call_results(m),
                        CallResultsIn::Raw(b) => b.clone(),
                    };
                    input.call_results = CallResultsIn::Raw(tamper::mutate_bytes(rng, &raw));
                    label = "bytes:call-results";
                }
                _ => {
                    let n = rng.below(200);
                    input.cur = rng.bytes(n);
                    label = "bytes:random";
                }
            }
            out.push(Planned { case: exec_case(&input, true, false), label: label.into(), group: "byte-level" });
        }
        // hostile call-result maps on honest data
        if rng.chance(1, 3) {
            let mut input = s.input.clone();
            let mut m = std::collections::BTreeMap::new();
            let ids: Vec<String> = vec!["0".into(), "1".into(), "2".into(), "4294967295".into(), "4294967296".into(), "-1".into(), "x".into(), "".into(), "01".into(), " 1".into()];
            for _ in 0..rng.range(1, 4) {
                let res = match rng.below(5) {
                    0 => "not json".to_string(),
                    1 => "{\"a\":".to_string(),
                    2 => "1e999".to_string(),
                    3 => format!("\"{}\"", "z".repeat(rng.below(5000))),
                    _ => "[1,2,3]".to_string(),
                };
                m.insert(rng.pick(&ids).clone(), (*rng.pick(&[0, 1, -1, i32::MAX, i32::MIN]), res));
            }
            input.call_results = CallResultsIn::Map(m);
            out.push(Planned { case: exec_case(&input, true, false), label: "call-results:odd-map".into(), group: "hostile-call-results" });
        }
        // the other entry points on honest and mutated bytes/text
        if rng.chance(1, 4) {
            out.push(Planned { case: json!({"kind": "hr", "bytes": b64(&s.input.cur)}), label: "hr:honest".into(), group: "other-entry-points" });
            out.push(Planned { case: json!({"kind": "hr", "bytes": b64(&tamper::mutate_bytes(rng, &s.input.cur))}), label: "hr:mutated".into(), group: "other-entry-points" });
        }
    }
    // mutated versions of the honest script through every text entry point
    for _ in 0..3 {
        let t = mutate_text(rng, &w.air);
        let mut input = c.history.steps[0].input.clone();
        input.air = t.clone();
        out.push(Planned { case: exec_case(&input, false, false), label: "script:mutated".into(), group: "hostile-scripts" });
        for k in ["parse", "beautify", "beautify_patterns"] {
            out.push(Planned { case: json!({"kind": k, "text": t}), label: format!("{k}:mutated"), group: "other-entry-points" });
        }
    }
}

pub fn run(cfg: &Cfg) -> Report {
    let mut stats = Stats::default();
    let exe = std::env::current_exe().expect("current exe");
    let verif_dir = std::env::var("VERIF_DIR").unwrap_or_else(|_| "/verif".to_string());
    let scratch = format!("{verif_dir}/.cache/sentry");
    // 1. honest histories -> planned cases
    let n_hist = cfg.scale(250, 4000);
    let per_step = if cfg.thorough { 3 } else { 2 };
    let planned: std::sync::Mutex<Vec<(u64, Planned)>> = std::sync::Mutex::new(vec![]);
    let hstats = par_cases(cfg, n_hist, |case, st| {
        if let Some(c) = build_case(cfg, 1, case, &[Frag::Stream, Frag::Stream, Frag::Seq]) {
            observe(&c, st);
            let mut rng = Rng::derive(cfg.seed ^ 0xc01, 1, case);
            let mut out = vec![];
            plan_from_history(&c, &mut rng, &mut out, per_step, case < if cfg.thorough { 24 } else { 3 });
            planned.lock().unwrap().extend(out.into_iter().map(|p| (case, p)));
        }
    });
    stats.merge(hstats);
    let mut planned = planned.into_inner().unwrap();
    planned.sort_by_key(|(c, _)| *c);
    // 1b. the hand-written scripts (folds in seq and par position, canon maps, recursive streams, new-scoped
    // streams): a few random histories of each, always with the systematic fold-lore and bit-flip sweeps
    if cfg.only_case.is_none() {
        let n_sched = if cfg.thorough { 6 } else { 1 };
        for (idx, (name, n_peers, text)) in DIRECTED.iter().enumerate() {
            let ids = standard_peer_ids(*n_peers);
            let mut air = text.to_string();
            for (i, id) in ids.iter().enumerate() {
                air = air.replace(&format!("@P{i}"), id);
            }
            for k in 0..n_sched {
                let mut rng = Rng::derive(cfg.seed ^ 0xc01d, idx as u64, k);
                let world = World::new(*n_peers, air.clone(), None, &format!("c01-directed-{}-{idx}-{k}", cfg.seed), 3);
                let sched = mk_sched(&mut rng);
                let history = run_random(&world, &mut rng, &sched);
                let c = Case { world, history, frag: Frag::Stream, has_streams: true, n_calls: 0 };
                observe(&c, &mut stats);
                stats.label("directed_scripts", name);
                let mut out = vec![];
                plan_from_history(&c, &mut rng, &mut out, per_step, true);
                planned.extend(out.into_iter().map(|p| (u64::MAX - 1, p)));
            }
        }
    }
    // 2. hostile scripts (own classes: a stack overflow kills the worker)
    let peers = standard_peers(1);
    let me = &peers[0];
    let mut rng = Rng::derive(cfg.seed, 0xc01, 0);
    for (label, text) in hostile_scripts(&mut rng, &me.id, cfg.thorough) {
        let w = World::new(1, text.clone(), None, "hostile", 3);
        let input = w.input(me);
        planned.push((u64::MAX, Planned { case: exec_case(&input, false, false), label: format!("script:{label}"), group: "hostile-scripts" }));
        for k in ["parse", "beautify", "beautify_patterns"] {
            planned.push((u64::MAX, Planned { case: json!({"kind": k, "text": text}), label: format!("{k}:{label}"), group: "other-entry-points" }));
        }
    }
    // the odd-but-parsable scripts again, this time driven to the end on two peers with the service model (the
    // single runs above stop at the first pending call), plus scripts whose `next` runs more than once per
    // iteration and scalar/iterator/stream name clashes that need no service at all
    if cfg.only_case.is_none() {
        let ids = standard_peer_ids(2);
        let mut driven: Vec<(String, String)> = hostile_scripts(&mut Rng::derive(cfg.seed, 0xc01, 0), "@P0", false)
            .into_iter()
            .filter(|(l, _)| !(l.starts_with("deep-") || l.starts_with("long-") || l.starts_with("many-") || l.starts_with("token-soup")))
            .collect();
        for (l, t) in DRIVEN_SCRIPTS {
            driven.push((l.to_string(), t.to_string()));
        }
        driven.push(("values-nested-135-deep".to_string(), nested_canon_script(135)));
        for (k, (label, text)) in driven.iter().enumerate() {
            let mut air = text.clone();
            for (i, id) in ids.iter().enumerate() {
                air = air.replace(&format!("@P{i}"), id);
            }
            if air_parser::parse(&air).is_err() {
                continue;
            }
            for r in 0..2 {
                let mut rng = Rng::derive(cfg.seed ^ 0xd01, k as u64, r);
                let world = World::new(2, air.clone(), None, &format!("c01-driven-{k}"), 3);
                let sched = mk_sched(&mut rng);
                let history = run_random(&world, &mut rng, &sched);
                stats.inc("driven_odd_script_runs", history.steps.len() as u64);
                for s in &history.steps {
                    planned.push((u64::MAX, Planned { case: exec_case(&s.input, true, true), label: format!("script:driven-{label}"), group: "hostile-scripts" }));
                }
            }
        }
    }
    // crafted current data: a pending call whose arguments are still unknown is given a request-sent state
    // that carries this peer's id and the id of a result handed over in the same run (no CIDs, nothing to sign)
    if cfg.only_case.is_none() {
        let peers2 = standard_peers(2);
        let (p0, p1) = (&peers2[0], &peers2[1]);
        let script = format!("(par (par (call \"{1}\" (\"svc\" \"str1\") [] y) (call \"{0}\" (\"svc\" \"f1\") [y] z)) (call \"{0}\" (\"svc\" \"f2\") [] x))", p0.id, p1.id);
        let w = World::new(2, script, None, "c01-crafted-join", 3);
        let first = invoke(&w.input(p0));
        if let Ok(view) = proj::decode(&first.data) {
            let own = |id: u64| json!({"call": {"sent_by": {"PeerIdWithCallId": {"peer_id": p0.id, "call_id": id}}}});
            for id in [1u64, 2] {
                let mut data = view.data.clone();
                data["trace"] = json!([{"par": [3, 1]}, {"par": [1, 1]}, {"call": {"sent_by": {"PeerId": p0.id}}}, own(id), own(id)]);
                if let Ok(bytes) = proj::encode_with_versions(&data, &view.data_version, &view.interpreter_version) {
                    let mut input = w.input(p0);
                    input.prev = first.data.clone();
                    input.cur = bytes;
                    let mut m = std::collections::BTreeMap::new();
                    m.insert(id.to_string(), (0, "\"r\"".to_string()));
                    input.call_results = CallResultsIn::Map(m);
                    planned.push((u64::MAX, Planned { case: exec_case(&input, true, false), label: "tamper:call-id-claimed-by-a-waiting-call".into(), group: "signed-tamper" }));
                }
            }
        }
    }
    // long scalar folds and runtime type confusion via service results
    let sizes: &[usize] = if cfg.thorough { &[100, 1000, 10_000, 100_000] } else { &[100, 1000, 10_000] };
    for &n in sizes {
        for (shape, script) in [
            ("fold-seq", format!("(seq (call \"{0}\" (\"s\" \"big\") [] xs) (fold xs i (seq (null) (next i))))", me.id)),
            ("fold-par", format!("(seq (call \"{0}\" (\"s\" \"big\") [] xs) (fold xs i (par (null) (next i))))", me.id)),
            ("fold-canon", format!("(seq (call \"{0}\" (\"s\" \"big\") [] xs) (seq (fold xs i (seq (ap i $s) (next i))) (seq (canon \"{0}\" $s #c) (fold #c j (seq (null) (next j))))))", me.id)),
        ] {
            let w = World::new(1, script, None, "longfold", 3);
            let first = invoke(&w.input(me));
            let mut input = w.input(me);
            input.prev = first.data.clone();
            let arr: Vec<Value> = (0..n).map(|i| json!(i)).collect();
            let mut m = std::collections::BTreeMap::new();
            m.insert("1".to_string(), (0, Value::Array(arr).to_string()));
            input.call_results = CallResultsIn::Map(m);
            planned.push((u64::MAX, Planned { case: exec_case(&input, false, true), label: format!("script:long-{shape}.{n}"), group: "hostile-scripts" }));
        }
    }
    for (label, result) in [("non-array-fold", "{\"a\":1}"), ("string-fold", "\"str\""), ("null-fold", "null"), ("nested-deep", &format!("{}1{}", "[".repeat(120), "]".repeat(120))), ("huge-number", "1e308"), ("long-string", &format!("\"{}\"", "s".repeat(200_000)))] {
        let script = format!("(seq (call \"{0}\" (\"s\" \"big\") [] xs) (xor (fold xs i (seq (call xs (\"s\" i) [xs.$.[0] xs.$.a] $st) (next i))) (call \"{0}\" (xs \"f\") [xs.length])))", me.id);
        let w = World::new(1, script, None, "confusion", 3);
        let first = invoke(&w.input(me));
        let mut input = w.input(me);
        input.prev = first.data.clone();
        let mut m = std::collections::BTreeMap::new();
        m.insert("1".to_string(), (0, result.to_string()));
        input.call_results = CallResultsIn::Map(m);
        planned.push((u64::MAX, Planned { case: exec_case(&input, true, true), label: format!("script:type-confusion-{label}"), group: "hostile-scripts" }));
    }

    // accessors taken from scalars of every JSON type, applied to scalars, canon streams and canon maps
    for (label, result) in [("float", "1.5"), ("negative", "-1"), ("huge", "18446744073709551616"), ("u64max", "18446744073709551615"), ("i64min", "-9223372036854775808"), ("bool", "true"), ("null", "null"), ("object", "{\"a\":1}"), ("array", "[0]"), ("string", "\"k\""), ("empty-string", "\"\""), ("exp", "1e3")] {
        let script = format!(
            "(seq (call \"{0}\" (\"s\" \"acc\") [] k) (seq (seq (ap (\"k\" \"v\") %m) (seq (ap (1 \"w\") %m) (seq (ap \"x\" $st) (seq (canon \"{0}\" %m #%cm) (canon \"{0}\" $st #cs))))) (seq (xor (call \"{0}\" (\"s\" \"f1\") [#%cm.$.[k]]) (null)) (seq (xor (call \"{0}\" (\"s\" \"f2\") [#cs.$.[k]]) (null)) (seq (xor (ap (k \"z\") %m) (null)) (seq (xor (call \"{0}\" (\"s\" \"f3\") [k.$.[k]]) (null)) (xor (fold #%cm.$.[k] it (seq (null) (next it))) (null))))))))",
            me.id
        );
        let w = World::new(1, script, None, "accessor", 3);
        let first = invoke(&w.input(me));
        let mut input = w.input(me);
        input.prev = first.data.clone();
        let mut m = std::collections::BTreeMap::new();
        m.insert("1".to_string(), (0, result.to_string()));
        input.call_results = CallResultsIn::Map(m);
        planned.push((u64::MAX, Planned { case: exec_case(&input, true, true), label: format!("script:type-confusion-accessor-{label}"), group: "hostile-scripts" }));
    }

    // error objects of every shape handed to `fail` (and re-raised / read back through %last_error% and :error:)
    for (label, result) in [
        ("code-u64max", "{\"error_code\":18446744073709551615,\"message\":\"m\"}"),
        ("code-above-i64", "{\"error_code\":9223372036854775808,\"message\":\"m\"}"),
        ("code-i64min", "{\"error_code\":-9223372036854775808,\"message\":\"m\"}"),
        ("code-float", "{\"error_code\":1.5,\"message\":\"m\"}"),
        ("code-exp", "{\"error_code\":1e300,\"message\":\"m\"}"),
        ("code-zero", "{\"error_code\":0,\"message\":\"m\"}"),
        ("code-string", "{\"error_code\":\"1\",\"message\":\"m\"}"),
        ("code-missing", "{\"message\":\"m\"}"),
        ("message-number", "{\"error_code\":1,\"message\":2}"),
        ("message-missing", "{\"error_code\":1}"),
        ("extra-fields", "{\"error_code\":7,\"message\":\"m\",\"instruction\":1,\"peer_id\":[1]}"),
        ("not-object", "[1,\"m\"]"),
        ("null", "null"),
        ("nested-deep", "{\"error_code\":7,\"message\":\"m\",\"d\":[[[[[[[[[[[[[[[[[[[[[[[[[[[[[[[[1]]]]]]]]]]]]]]]]]]]]]]]]]]]]]]]]}"),
    ] {
        let script = format!(
            "(seq (call \"{0}\" (\"s\" \"eo\") [] e) (seq (xor (fail e) (seq (xor (call \"{0}\" (\"s\" \"g1\") [%last_error% :error: %last_error%.$.error_code :error:.$.message]) (null)) (xor (fail %last_error%) (xor (fail :error:) (null))))) (xor (par (fail e) (fail e)) (xor (match e.$.error_code e.$.error_code (fail e)) (null)))))",
            me.id
        );
        let w = World::new(1, script, None, "failobj", 3);
        let first = invoke(&w.input(me));
        let mut input = w.input(me);
        input.prev = first.data.clone();
        let mut m = std::collections::BTreeMap::new();
        m.insert("1".to_string(), (0, result.to_string()));
        input.call_results = CallResultsIn::Map(m);
        planned.push((u64::MAX, Planned { case: exec_case(&input, true, true), label: format!("script:fail-object-{label}"), group: "hostile-scripts" }));
    }

    let unencodable = planned.iter().filter(|(_, p)| p.group == "unencodable").count();
    stats.inc("tamperings_not_representable_in_the_typed_format", unencodable as u64);
    planned.retain(|(_, p)| p.group != "unencodable");
    if let Some(k) = cfg.only_case {
        planned.retain(|(c, _)| *c == k || *c == u64::MAX);
    }
    let cases: Vec<Value> = planned.iter().map(|(_, p)| p.case.clone()).collect();
    let results = run_isolated(&exe, &cases, cfg.threads, &scratch, MEM_CAP, Duration::from_secs(60));
    let _ = std::fs::remove_dir_all(&scratch);

    for ((hcase, p), r) in planned.iter().zip(results.iter()) {
        stats.inc("cases", 1);
        stats.inc(&format!("cases[{}]", p.group), 1);
        let class = class_of(&p.label);
        stats.label("case_classes", &class);
        let case_id = if *hcase == u64::MAX { 0 } else { *hcase };
        let detail = || json!({"label": p.label, "case": trim_case(&p.case)});
        match r {
            CaseResult::Done(v) => {
                if let Some(e) = v.get("harness_error") {
                    stats.inconclusive.push(format!("worker harness error on {}: {e}", p.label));
                    continue;
                }
                let mem_violation = |peak: u64, largest: u64, bytes: u64, what: &str| -> Option<(String, String)> {
                    let bound = (MEM_BASE + MEM_PER_BYTE * bytes as usize) as u64;
                    if peak > bound || largest > bound {
                        Some((format!("alloc-out-of-proportion@class={class}"), format!("{what}: peak {peak} bytes / largest request {largest} bytes for {bytes} input bytes (bound {bound}) on {}", p.label)))
                    } else {
                        None
                    }
                };
                let peak = v.get("peak").and_then(|x| x.as_u64()).unwrap_or(0);
                let largest = v.get("largest").and_then(|x| x.as_u64()).unwrap_or(0);
                let bytes = v.get("input_bytes").and_then(|x| x.as_u64()).unwrap_or(0);
                if let Some((sg, wh)) = mem_violation(peak, largest, bytes, "run") {
                    stats.violation("C01", &sg, &wh, case_id, detail());
                }
                stats.counters.entry("max_peak_bytes".into()).and_modify(|m| *m = (*m).max(peak)).or_insert(peak);
                if let Some(pn) = v.get("panic").and_then(|p| p.as_array()) {
                    let loc = norm_loc(pn[0].as_str().unwrap_or("?"));
                    stats.violation("C01", &format!("panic@{loc}"), &format!("{} panicked at {loc}: {}", p.label, pn[1].as_str().unwrap_or("")), case_id, detail());
                    continue;
                }
                if let Some(code) = v.get("ret_code").and_then(|c| c.as_i64()) {
                    stats.label("ret_codes_seen", &crate::errcodes::table().name(code));
                    if code == PANIC_CODE {
                        let msg = v.get("msg").and_then(|m| m.as_str()).unwrap_or("");
                        let loc = norm_loc(msg.trim_start_matches("PANIC at ").split(" :: ").next().unwrap_or("?"));
                        stats.violation("C01", &format!("panic@{loc}"), &format!("{}: {msg}", p.label), case_id, detail());
                        continue;
                    }
                    if v.get("accepted").and_then(|a| a.as_bool()).unwrap_or(false) && p.group == "signed-tamper" {
                        stats.inc("tampered_data_accepted_and_executed", 1);
                        stats.seen("accepted_tamper_classes", crate::rng::fnv(class_of(p.label.split(':').nth(1).unwrap_or("")).as_bytes()));
                    }
                    if p.group == "signed-tamper" {
                        stats.seen("tamper_outcomes", crate::rng::fnv(format!("{}|{code}", p.label.split('=').next().unwrap_or("")).as_bytes()));
                    }
                    if let Some(c02) = v.get("c02").and_then(|c| c.as_array()) {
                        stats.inc("c02_rule_defects_seen_on_hostile_input", 1);
                        stats.label("c02_defect_signatures", c02[0].as_str().unwrap_or(""));
                    }
                    if let Some(f) = v.get("follow") {
                        if f.get("ret_code").and_then(|c| c.as_i64()) == Some(PANIC_CODE) {
                            let msg = f.get("msg").and_then(|m| m.as_str()).unwrap_or("");
                            let loc = norm_loc(msg.trim_start_matches("PANIC at ").split(" :: ").next().unwrap_or("?"));
                            stats.violation("C01", &format!("panic@{loc}"), &format!("{} (honest follow-up step): {msg}", p.label), case_id, detail());
                        }
                        if let (Some(pk), Some(lg)) = (f.get("peak").and_then(|x| x.as_u64()), f.get("largest").and_then(|x| x.as_u64())) {
                            if let Some((sg, wh)) = mem_violation(pk, lg, bytes, "follow-up run") {
                                stats.violation("C01", &sg, &wh, case_id, detail());
                            }
                        }
                    }
                }
                stats.seen("distinct_cases", crate::rng::fnv(serde_json::to_string(&p.case).unwrap_or_default().as_bytes()));
            }
            CaseResult::Died { signal, code, stderr_tail } => {
                let sig = if stderr_tail.contains("VCHECK-ALLOC-CAP-EXCEEDED") {
                    format!("alloc-cap@class={class}")
                } else if stderr_tail.contains("overflowed its stack") || stderr_tail.contains("stack overflow") {
                    format!("stack-overflow@class={class}")
                } else {
                    format!("died@signal={:?},class={class}", signal)
                };
                stats.seen("distinct_cases", crate::rng::fnv(serde_json::to_string(&p.case).unwrap_or_default().as_bytes()));
                stats.violation("C01", &sig, &format!("worker process died on {} (signal {:?}, exit code {:?}): {}", p.label, signal, code, proj::trunc(stderr_tail.trim(), 300)), case_id, detail());
            }
            CaseResult::Timeout => stats.inconclusive.push(format!("wall-clock watchdog (60 s) fired on {}", p.label)),
            CaseResult::Harness(e) => stats.inconclusive.push(format!("harness: {e} on {}", p.label)),
        }
    }
    // sanitizer passes (thorough tier): a sample of the same cases under AddressSanitizer and under
    // valgrind memcheck. The recursion-depth classes are left out: sanitizer stack frames are larger,
    // and a stack overflow is judged by the ordinary pass above.
    if cfg.thorough && !crate::sanitize::is_subrun() && cfg.only_case.is_none() {
        let eligible: Vec<(String, Value)> = planned.iter().filter(|(_, p)| !p.label.contains("deep-") && !p.label.contains("long-")).map(|(_, p)| (p.label.clone(), p.case.clone())).collect();
        let pick = |n: usize| -> Vec<(String, Value)> {
            // half of the budget for the byte-level classes (decoders are where third-party unsafe code is), half uniform
            let bytes: Vec<&(String, Value)> = eligible.iter().filter(|(l, _)| l.starts_with("bitflip") || l.starts_with("bytes") || l.starts_with("hr:")).collect();
            let sb = (bytes.len() / (n / 2).max(1)).max(1);
            let mut v: Vec<(String, Value)> = bytes.iter().step_by(sb).take(n / 2).map(|x| (*x).clone()).collect();
            let stride = (eligible.len() / (n - v.len()).max(1)).max(1);
            v.extend(eligible.iter().step_by(stride).take(n - v.len()).cloned());
            v
        };
        match crate::sanitize::asan_bin() {
            Some(bin) => crate::sanitize::replay_cases("asan", &bin.to_string_lossy(), &pick(6000), cfg.threads, &format!("{verif_dir}/.cache/sentry-asan"), Duration::from_secs(180), "C01", &mut stats),
            None => stats.inconclusive.push("the AddressSanitizer build of the harness is not available (see .cache/asan-build.log)".into()),
        }
        match crate::sanitize::valgrind() {
            Some(vg) => crate::sanitize::replay_cases("memcheck", &format!("{vg} {}", exe.to_string_lossy()), &pick(600), cfg.threads, &format!("{verif_dir}/.cache/sentry-memcheck"), Duration::from_secs(600), "C01", &mut stats),
            None => stats.inconclusive.push("valgrind is not available".into()),
        }
        stats.label("sanitizers", "asan");
        stats.label("sanitizers", "memcheck");
        crate::sanitize::miri_pass(cfg, 8, 3, &mut stats);
    }
    for (_, p) in planned.iter().filter(|(_, p)| p.group == "signed-tamper").take(2).chain(planned.iter().filter(|(_, p)| p.group == "byte-level").take(1)).chain(planned.iter().take(3)) {
        stats.sample(json!({"label": p.label, "case": trim_case(&p.case)}));
    }
    Report {
        prop: "C01",
        level: "exploration",
        stats,
        evaluations_key: "cases",
        nontrivial_key: "distinct_cases",
        rule: "cases run in isolated worker processes (8 MiB stack, panic hook, counting allocator capped at 2 GiB): structure-aware tampering of honest current data (1-3 catalogue operations, CID stores repaired and the attacker's results re-signed in 4 of 5 cases) delivered to an honest peer holding honest previous data and followed by one honest step; byte-level mutations of envelopes, inner data and call-result maps; hostile call-result maps; hostile scripts (deep nesting 10^2..10^5, long folds, name clashes, type confusion, token soup, mutated honest scripts); parse / beautify / to_human_readable_data on the same texts and bytes. Violation = panic, process death, allocator cap, or peak/largest allocation above 64 MiB + 256 x input bytes. Distinct by full case content".into(),
        assumptions: vec![
            "previous data is always an honest interpreter output (as the property states)".into(),
            "memory bound: 64 MiB + 256 bytes per input byte; time: 60 s wall-clock watchdog per case is inconclusive, not a violation".into(),
            "not run: scripts that amplify memory by themselves (a recursive fold that appends the canon of its own stream doubles the value per round up to the 1024-value stream limit; :error:.$.message fed back into a failing lens doubles escapes): they need tens of GB on a machine without swap (DESIGN.md 12.12)".into(),
            "added in the last part of round 3: error objects of 14 shapes through fail/%last_error%/:error:; call results of the wrong JSON type at honest ids; odd scripts driven to the end on two peers with the service model (next executed twice per iteration, scalar/iterator/stream name clashes, values nested 135 deep with an honest follow-up run); fold-lore and bit-flip sweeps over histories of every directed script; fold lore naming non-value states with short later entries; a request-sent state carrying this peer's call id at another or at a waiting call".into(),
        ],
    }
}

fn trim_case(c: &Value) -> Value {
    // replay needs everything; keep the case but cap enormous texts
    let s = serde_json::to_string(c).unwrap_or_default();
    if s.len() <= 60_000 {
        c.clone()
    } else {
        json!({"kind": c.get("kind"), "note": "case too large to embed; regenerate with --only-case", "prefix": proj::trunc(&s, 2000)})
    }
}
