//! C10: produced traces are structurally well formed.
use super::honest::*;
use crate::oracle::wf;
use crate::proj;
use crate::report::*;
use crate::rng::fnv;
use serde_json::json;

pub fn run(cfg: &Cfg) -> Report {
    let n = cfg.scale(2500, 60000);
    let stats = run_honest(cfg, 10, n, &[Frag::Stream, Frag::Stream, Frag::Seq], |c, case, _rng, st| {
        for s in &c.history.steps {
            if !s.produced_new_data() {
                continue;
            }
            let Some(v) = &s.out_v else { continue };
            let states = proj::states(v);
            st.inc("traces_checked", 1);
            match wf::check(&states) {
                Ok(ws) => {
                    st.inc("par_entries", ws.pars);
                    st.inc("fold_entries", ws.folds);
                    st.inc("fold_iterations", ws.iterations);
                    st.inc("elements_spanning_nested_iterations", ws.spanning_elements);
                    if ws.folds > 0 || ws.pars > 1 {
                        st.seen("structured_traces", fnv(format!("{:?}", states).as_bytes()));
                    }
                    if ws.iterations > 1 {
                        st.inc("traces_with_multi_iteration_folds", 1);
                    }
                }
                Err(e) => {
                    let sig = e.split(':').next().unwrap_or("?").split(" at ").next().unwrap_or("?").trim().replace(' ', "-");
                    st.violation("C10", &format!("malformed-trace@{sig}"), &format!("step {} at {}: {e}; trace {:?}", s.idx, c.world.peers[s.peer].name, proj::render_trace(v)), case, json!({"step": s.idx, "history": history_sample(c, 40)}));
                }
            }
            // the iterations a stream fold really ran (guarded event sink) are exactly the iterations its
            // fold entry records: a visited value without a lore entry means that the entries its iteration
            // produced are covered by no iteration range (a gap the structure alone cannot show, because
            // they then look like siblings of the fold), an entry without a visit is a range nobody ran
            if matches!(s.class(), crate::invoke::CodeClass::Success) && !s.out.events.is_empty() {
                let m = super::streams::build(&s.out.events);
                let fold_states: Vec<Vec<u64>> = states.iter().filter_map(|x| if let proj::St::Fold(l) = x { Some(l.iter().map(|e| e.0).collect()) } else { None }).collect();
                if m.folds.len() == fold_states.len() && m.folds.iter().all(|f| f.ended) {
                    for (f, lore) in m.folds.iter().zip(&fold_states) {
                        st.inc("fold_entries_compared_with_the_iterations_run", 1);
                        let mut visited: Vec<u64> = f.visited.iter().map(|v| v.0 as u64).collect();
                        let mut recorded = lore.clone();
                        visited.sort();
                        recorded.sort();
                        if visited != recorded {
                            let sig = if visited.iter().any(|v| !recorded.contains(v)) { "iteration-without-fold-range" } else { "fold-range-without-iteration" };
                            st.violation("C10", &format!("malformed-trace@{sig}"), &format!("step {} at {}: the fold over {} ran iterations for the values at {:?} but its fold entry records iterations for {:?}; trace {:?}", s.idx, c.world.peers[s.peer].name, f.name, visited, recorded, proj::render_trace(v)), case, json!({"step": s.idx, "history": history_sample(c, 40)}));
                        }
                    }
                } else {
                    st.inc("runs_whose_fold_entries_could_not_be_paired_with_fold_events", 1);
                }
            }
        }
    });
    Report {
        prop: "C10",
        level: "exploration",
        stats,
        evaluations_key: "traces_checked",
        nontrivial_key: "structured_traces",
        rule: "every trace produced in generated honest histories (stream-heavy scripts: nested par/fold/next in seq and par position, recursive streams, new scopes, catchable errors inside folds and pars, multi-peer merges) is walked by an independent well-formedness checker; non-trivial = the trace has a fold entry or nested pars; distinct by the full decoded trace".into(),
        assumptions: vec!["trace format as described in DESIGN.md section 5/C10".into()],
    }
}
