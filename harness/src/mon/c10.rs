//! C10: produced traces are structurally well formed.
use super::honest::*;
use crate::oracle::wf;
use crate::proj;
use crate::report::*;
use crate::rng::fnv;
use serde_json::json;

pub fn run(cfg: &Cfg) -> Report {
    let n = cfg.scale(2500, 60000);
    let stats = run_honest(cfg, 10, n, &[Frag::Stream, Frag::Stream, Frag::Seq], |c, case, _rng, st| {
        for s in &c.history.steps {
            if !s.produced_new_data() {
                continue;
            }
            let Some(v) = &s.out_v else { continue };
            let states = proj::states(v);
            st.inc("traces_checked", 1);
            match wf::check(&states) {
                Ok(ws) => {
                    st.inc("par_entries", ws.pars);
                    st.inc("fold_entries", ws.folds);
                    st.inc("fold_iterations", ws.iterations);
                    st.inc("elements_spanning_nested_iterations", ws.spanning_elements);
                    if ws.folds > 0 || ws.pars > 1 {
                        st.seen("structured_traces", fnv(format!("{:?}", states).as_bytes()));
                    }
                    if ws.iterations > 1 {
                        st.inc("traces_with_multi_iteration_folds", 1);
                    }
                }
                Err(e) => {
                    let sig = e.split(':').next().unwrap_or("?").split(" at ").next().unwrap_or("?").trim().replace(' ', "-");
                    st.violation("C10", &format!("malformed-trace@{sig}"), &format!("step {} at {}: {e}; trace {:?}", s.idx, c.world.peers[s.peer].name, proj::render_trace(v)), case, json!({"step": s.idx, "history": history_sample(c, 40)}));
                }
            }
        }
    });
    Report {
        prop: "C10",
        level: "exploration",
        stats,
        evaluations_key: "traces_checked",
        nontrivial_key: "structured_traces",
        rule: "every trace produced in generated honest histories (stream-heavy scripts: nested par/fold/next in seq and par position, recursive streams, new scopes, catchable errors inside folds and pars, multi-peer merges) is walked by an independent well-formedness checker; non-trivial = the trace has a fold entry or nested pars; distinct by the full decoded trace".into(),
        assumptions: vec!["trace format as described in DESIGN.md section 5/C10".into()],
    }
}
