//! C22: the three size limits are enforced exactly as configured (hard mode rejects, soft mode
//! only raises the matching flags, inputs at or below a limit never trigger it).
use super::honest::*;
use crate::invoke::*;
use crate::proj;
use crate::report::*;
use crate::rng::{fnv, Rng};
use crate::sim::*;
use serde_json::json;

const KINDS: [&str; 3] = ["air", "particle", "call-result"];

/// everything of an outcome except the limit flags, field by field
fn parts(o: &RunOutcome) -> [(&'static str, String); 5] {
    let data = match proj::decode(&o.data) {
        Ok(v) => serde_json::to_string(&json!({"dv": v.data_version, "iv": v.interpreter_version, "data": super::c20::sort_value(&v.data)})).unwrap_or_default(),
        Err(e) => format!("undecodable:{e}:{}", fnv(&o.data)),
    };
    let mut np = o.next_peers.clone();
    np.sort();
    np.dedup();
    [("ret_code", o.ret_code.to_string()), ("message", o.error_message.clone()), ("data", data), ("requests", format!("{:?}", o.requests)), ("next-peers", format!("{np:?}"))]
}

fn first_difference(a: &[(&'static str, String); 5], b: &[(&'static str, String); 5]) -> Option<(&'static str, String)> {
    a.iter().zip(b).find(|(x, y)| x.1 != y.1).map(|(x, y)| (x.0, format!("{} vs {}", proj::trunc(&x.1, 300), proj::trunc(&y.1, 300))))
}

/// which limit a size error message talks about (formats of SizeLimitsExceded in preparation_step/errors.rs)
fn message_kind(msg: &str) -> Option<usize> {
    ["air size: ", "Current_data particle size: ", "Call result size is bigger"].iter().position(|p| msg.starts_with(p))
}

fn expected_message(kind: usize, size: u64, limit: u64) -> String {
    match kind {
        0 => format!("air size: {size} bytes is bigger than the limit allowed: {limit} bytes"),
        1 => format!("Current_data particle size: {size} bytes is bigger than the limit allowed: {limit} bytes"),
        _ => format!("Call result size is bigger than the limit allowed: {limit} bytes"),
    }
}

fn names(set: [bool; 3]) -> String {
    let v: Vec<&str> = (0..3).filter(|i| set[*i]).map(|i| KINDS[i]).collect();
    if v.is_empty() { "none".into() } else { v.join("+") }
}

fn self_test() -> Vec<String> {
    let mut bad = vec![];
    for (k, m) in [(0, "air size: 10 bytes is bigger than the limit allowed: 9 bytes"), (1, "Current_data particle size: 1 bytes is bigger than the limit allowed: 0 bytes"), (2, "Call result size is bigger than the limit allowed: 3 bytes")] {
        if message_kind(m) != Some(k) || expected_message(k, if k == 0 { 10 } else { 1 }, [9, 0, 3][k]) != m {
            bad.push(format!("message table broken for {}", KINDS[k]));
        }
    }
    if message_kind("air can't be parsed") != None || names([true, false, true]) != "air+call-result" || names([false; 3]) != "none" {
        bad.push("message_kind/names broken".into());
    }
    if boundary_values(0) != [0, 0, 0, 1, u64::MAX] || boundary_values(7) != [0, 6, 7, 8, u64::MAX] || boundary_values(u64::MAX)[3] != u64::MAX {
        bad.push("boundary_values broken".into());
    }
    bad
}

fn boundary_values(size: u64) -> [u64; 5] {
    [0, size.saturating_sub(1), size, size.saturating_add(1), u64::MAX]
}

fn check_run(s: &Step, air: &str, case: u64, size_code: i64, st: &mut Stats) {
    let results = match &s.input.call_results {
        CallResultsIn::Map(m) => m,
        CallResultsIn::Raw(_) => return,
    };
    // what each limit measures: script bytes, raw current data bytes, bytes of each result string
    let sizes = [s.input.air.len() as u64, s.input.cur.len() as u64, results.values().map(|r| r.1.len() as u64).max().unwrap_or(0)];
    let has_results = !results.is_empty();
    let base = parts(&s.out);
    let ih = super::c02::input_hash(&s.input);
    st.inc(if has_results { "sampled_runs_with_call_results" } else { "sampled_runs_without_call_results" }, 1);
    st.seen("distinct_sampled_inputs", ih);
    st.label("reference_ret_code_classes", &format!("{:?}", s.class()));
    let mut sampled = false;
    for (ai, a) in boundary_values(sizes[0]).into_iter().enumerate() {
        for (pi, p) in boundary_values(sizes[1]).into_iter().enumerate() {
            for (ci, c) in boundary_values(sizes[2]).into_iter().enumerate() {
                for hard in [false, true] {
                    let limits = [a, p, c];
                    let mut inp = s.input.clone();
                    inp.limits = Limits { air: a, particle: p, call_result: c, hard };
                    let o = invoke(&inp);
                    st.inc("runs_judged", 1);
                    st.inc(if has_results { "runs_call_result_limit_effective" } else { "runs_call_result_limit_vacuous" }, 1);
                    if o.ret_code == PANIC_CODE {
                        st.inc("panics(C01 matter)", 1);
                    }
                    // a limit is exceeded iff actual > limit; without call results nothing can exceed the third limit
                    let exceeded = [sizes[0] > a, sizes[1] > p, has_results && sizes[2] > c];
                    let flags = [o.flags.0, o.flags.1, o.flags.2];
                    let near = |i: usize| (1..=3).contains(&i);
                    if near(ai) || near(pi) || (has_results && near(ci)) {
                        st.seen("boundary_points", ih ^ fnv(format!("{a}|{p}|{c}|{hard}").as_bytes()));
                    }
                    st.inc(&format!("runs[{},exceeded={}]", if hard { "hard" } else { "soft" }, exceeded.iter().filter(|e| **e).count()), 1);
                    let detail = || {
                        json!({"air": air, "sizes": {"air": sizes[0], "particle(current data bytes)": sizes[1], "longest_call_result": sizes[2], "call_results": results.len()},
                            "limits": {"air": a, "particle": p, "call_result": c, "hard": hard}, "expected_exceeded": names(exceeded),
                            "got": {"ret_code": o.ret_code, "error": proj::trunc(&o.error_message, 300), "flags": flags, "data_len": o.data.len(), "next_peers": o.next_peers, "requests": format!("{:?}", o.requests)},
                            "unlimited_run": {"ret_code": s.out.ret_code, "error": proj::trunc(&s.out.error_message, 300), "data_len": s.out.data.len(), "next_peers": s.out.next_peers},
                            "input": serde_json::to_value(&inp).unwrap_or_default()})
                    };
                    if !sampled && case < 3 && hard && (ai, pi, ci) == (2, 1, 4) {
                        sampled = true;
                        st.sample(json!({"sizes": sizes, "limits": limits, "hard": hard, "expected_exceeded": names(exceeded), "ret_code": o.ret_code, "error": proj::trunc(&o.error_message, 120), "flags": flags, "data_equals_prev": o.data == s.input.prev}));
                    }
                    let mode = if hard { "hard" } else { "soft" };
                    if hard && exceeded.contains(&true) {
                        st.label("info:flags_of_hard_rejections", &format!("exceeded {} -> flags {}", names(exceeded), names(flags)));
                        if o.ret_code != size_code {
                            st.violation("C22", &format!("hard-limit-not-enforced@{}", names(exceeded)), &format!("hard mode, sizes {sizes:?} limits {limits:?} ({} exceeded) but ret_code {} {}", names(exceeded), o.ret_code, crate::errcodes::table().name(o.ret_code)), case, detail());
                        } else if o.data != s.input.prev {
                            st.violation("C22", "hard-rejection-does-not-return-prev-data", &format!("size error, but the returned data ({} bytes) is not the previous data ({} bytes)", o.data.len(), s.input.prev.len()), case, detail());
                        } else if !o.next_peers.is_empty() || o.requests != Ok(Default::default()) {
                            st.violation("C22", "hard-rejection-has-effects", &format!("size error, but next peers {:?} / requests {:?}", o.next_peers, o.requests), case, detail());
                        } else {
                            match message_kind(&o.error_message) {
                                Some(k) if exceeded[k] => {
                                    let exact = o.error_message == expected_message(k, sizes[k], limits[k]);
                                    st.inc(if exact { "hard_rejections_as_expected" } else { "info:hard_rejection_message_text_differs_from_format" }, 1);
                                }
                                k => st.violation("C22", &format!("size-error-names-wrong-limit@{}", names(exceeded)), &format!("exceeded: {}, but the error is about {}: {}", names(exceeded), k.map(|k| KINDS[k]).unwrap_or("nothing known"), proj::trunc(&o.error_message, 200)), case, detail()),
                            }
                        }
                        continue;
                    }
                    // soft mode, or hard mode within all limits: flags are exactly the exceeded set, the rest is the unlimited run
                    if flags != exceeded {
                        let which = (0..3).find(|i| flags[*i] != exceeded[*i]).unwrap_or(0);
                        let dir = if flags[which] { "raised-within-limit" } else { "missing" };
                        st.violation("C22", &format!("{mode}-flag-{dir}@{}", KINDS[which]), &format!("{mode} mode, sizes {sizes:?} limits {limits:?}: expected flags {}, got {}", names(exceeded), names(flags)), case, detail());
                    } else if let Some((f, d)) = first_difference(&base, &parts(&o)) {
                        st.violation("C22", &format!("{mode}-mode-differs-from-unlimited-run-{f}@exceeded-{}", names(exceeded)), &format!("{mode} mode, sizes {sizes:?} limits {limits:?}: {f} differs from the unlimited run: {d}"), case, detail());
                    } else {
                        st.inc(if hard { "hard_within_limits_as_unlimited" } else { "soft_as_unlimited_with_exact_flags" }, 1);
                    }
                }
            }
        }
    }
}

/// As `honest::build_case`, but the scheduler mostly hands call results in together with a delivered
/// particle, so that many runs have current data and call results at once.
fn build(cfg: &Cfg, case: u64) -> Option<(World, History)> {
    let mut rng = Rng::derive(cfg.seed, 22, case);
    let frag = *rng.pick(&[Frag::Seq, Frag::Stream]);
    let g = mk_gen(&mut rng, frag, cfg.thorough);
    let sc = crate::gen::generate(&mut rng, &g, &standard_peer_ids(g.n_peers));
    air_parser::parse(&sc.air).ok()?;
    let world = World::new(g.n_peers, sc.air.clone(), Some(sc.ins), &format!("particle-{}-{case}", cfg.seed), rng.range(2, 4));
    let sched = SchedCfg { results_with_delivery: 900, late_results: true, ..mk_sched(&mut rng) };
    let history = run_random(&world, &mut rng, &sched);
    Some((world, history))
}

pub fn run(cfg: &Cfg) -> Report {
    let n = cfg.scale(60, 2000);
    let failed = self_test();
    let size_code = crate::errcodes::table().code("Prep::SizeLimitsExceded");
    let mut stats = if !failed.is_empty() {
        Stats::default()
    } else {
        par_cases(cfg, n, |case, st| {
            let (world, history) = match guarded(|| build(cfg, case)) {
                Ok(Some(c)) => c,
                Ok(None) => return st.inc("generator_rejected", 1),
                Err((loc, msg)) => return st.inconclusive.push(format!("harness panic while building case {case}: {loc} {msg}")),
            };
            let mut rng = Rng::derive(cfg.seed ^ 0x5555, 22, case);
            // honest runs that get past preparation (a run failing there for another reason could legitimately report that reason first)
            let ok = |s: &&Step| !s.input.cur.is_empty() && s.out.ret_code != PANIC_CODE && s.class() != CodeClass::Preparation && s.out.flags == (false, false, false);
            let eligible: Vec<&Step> = history.steps.iter().filter(ok).collect();
            let with_results: Vec<&Step> = eligible.iter().filter(|s| !s.results_given.is_empty()).cloned().collect();
            st.inc("info:honest_runs_failing_in_preparation_or_flagged(skipped)", history.steps.iter().filter(|s| s.class() == CodeClass::Preparation || s.out.flags != (false, false, false)).count() as u64);
            let pool = if with_results.is_empty() { &eligible } else { &with_results };
            if pool.is_empty() {
                return st.inc("histories_without_current_data", 1);
            }
            check_run(*rng.pick(pool), &world.air, case, size_code, st);
        })
    };
    for f in failed.iter().take(5) {
        stats.inconclusive.push(format!("oracle self-test failed: {f}"));
    }
    Report {
        prop: "C22",
        level: "exploration",
        stats,
        evaluations_key: "runs_judged",
        nontrivial_key: "boundary_points",
        rule: "one run with non-empty current data (preferring runs that are handed call results; the scheduler delivers results together with particles 9 times out of 10) is drawn from each generated honest history and repeated under the full grid {0, size-1, size, size+1, u64::MAX}^3 x {soft, hard} of the three limits (250 runs). Oracle: a limit is exceeded iff actual > limit. Hard mode with an exceeded limit => the size-limits code, data == prev bytes, no next peers, no requests, and the message is the size error of a limit that is really exceeded; otherwise the flags equal exactly the exceeded set and ret_code, message, decoded data, decoded requests and next-peer set equal the unlimited run of the same input. Non-trivial = distinct (input, limits, mode) where at least one effective limit is size-1, size or size+1 (the call-result limit is not effective when the run gets no call results; those runs are counted separately).".into(),
        assumptions: vec![
            "sizes as the code measures them: air limit vs byte length of the script text; particle limit vs byte length of the raw current data (the previous data is not limited); call-result limit vs byte length of each result string of the call results handed in (the longest decides); a run without call results cannot exceed the call-result limit".into(),
            "which of several exceeded limits a hard rejection reports, the numbers in the message and the flags of a hard rejection are not fixed by the property: any really exceeded kind is accepted, the rest is recorded as information".into(),
            "honest runs that fail in preparation for another reason are not sampled (the order of preparation errors is not part of the property)".into(),
        ],
    }
}
