//! C03: every produced data is accepted and verifiable by any other peer.
use super::honest::*;
use crate::gen::GenCfg;
use crate::invoke::*;
use crate::oracle::verify;
use crate::report::*;
use crate::rng::{fnv, Rng};
use crate::sim::*;
use serde_json::json;

fn check_data(w: &World, s: &Step, rng: &mut Rng, case: u64, st: &mut Stats, hist: &dyn Fn() -> serde_json::Value, tag: &str) {
    if !s.produced_new_data() {
        return;
    }
    st.inc("data_checked", 1);
    st.seen("distinct_data", fnv(&s.out.data));
    if matches!(s.class(), CodeClass::Catchable) {
        st.inc("data_from_catchable_error_runs", 1);
    }
    let v = match &s.out_v {
        Some(v) => v.clone(),
        None => {
            st.violation("C03", &format!("undecodable{tag}"), "produced data does not decode", case, json!({"step": s.idx, "history": hist()}));
            return;
        }
    };
    match crate::proj::decode(&s.out.data) {
        Ok(view) => {
            let iv = semver::Version::parse(&view.interpreter_version).ok();
            if iv.map(|x| x < *air::min_supported_version()).unwrap_or(true) {
                st.violation("C03", &format!("unsupported-version{tag}"), &format!("produced data carries interpreter version {:?}", view.interpreter_version), case, json!({"step": s.idx}));
            }
        }
        Err(e) => st.violation("C03", &format!("undecodable{tag}"), &e, case, json!({"step": s.idx})),
    }
    match verify::verify(&v, &w.particle_id) {
        Ok(ver) => {
            st.inc("signatures_verified", ver.per_peer.len() as u64);
        }
        Err(e) => {
            let sig = if e.contains("no signature") || e.contains("does not verify") { format!("signature{tag}") } else { format!("store{tag}") };
            st.violation("C03", &sig, &format!("data produced by {} at step {} does not verify: {e}", w.peers[s.peer].name, s.idx), case, json!({"step": s.idx, "history": hist()}));
            return;
        }
    }
    // acceptance by the observer and by one random other peer
    let others: Vec<usize> = (0..w.peers.len()).filter(|i| *i != s.peer).collect();
    let other = &w.peers[*rng.pick(&others)];
    for p in [&w.observer, other] {
        let mut input = w.input(p);
        input.cur = s.out.data.clone();
        let o = invoke(&input);
        st.inc("acceptance_runs", 1);
        if matches!(classify(o.ret_code), CodeClass::Preparation | CodeClass::Other) {
            st.violation(
                "C03",
                &format!("rejected-by-peer@{}{tag}", crate::errcodes::table().name(o.ret_code)),
                &format!("data produced by {} at step {} (code {}) is rejected by {} with code {}: {}", w.peers[s.peer].name, s.idx, s.out.ret_code, p.name, o.ret_code, crate::proj::trunc(&o.error_message, 200)),
                case,
                json!({"step": s.idx, "history": hist()}),
            );
        }
    }
}

pub fn run(cfg: &Cfg) -> Report {
    let n = cfg.scale(1200, 25000);
    let mut stats = run_honest(cfg, 3, n, &[Frag::Seq, Frag::Stream], |c, case, rng, st| {
        for s in &c.history.steps {
            check_data(&c.world, s, rng, case, st, &|| history_sample(c, 40), "");
        }
    });
    // sub-workload: a service whose "successful" result is not JSON
    let bad = par_cases(cfg, cfg.scale(300, 5000), |case, st| {
        let mut rng = Rng::derive(cfg.seed, 0x3bad, case);
        let mut g = GenCfg::fseq(rng.range(3, 4), rng.range(6, 14));
        g.bad_json = true;
        let ids = standard_peer_ids(g.n_peers);
        let sc = crate::gen::generate(&mut rng, &g, &ids);
        let w = World::new(g.n_peers, sc.air.clone(), Some(sc.ins), &format!("badjson-{}-{case}", cfg.seed), 3);
        let sched = mk_sched(&mut rng);
        let h = run_random(&w, &mut rng, &sched);
        st.inc("histories", 1);
        st.inc("badjson_histories", 1);
        let has_bad = h.steps.iter().any(|s| s.results_given.values().any(|(r, _, _)| r.function.starts_with("bad")));
        if has_bad {
            st.inc("histories_with_non_json_result", 1);
        }
        for s in &h.steps {
            check_data(&w, s, &mut rng, case, st, &|| describe(&w, &h, 40), "@non-json-result");
        }
    });
    stats.merge(bad);
    Report {
        prop: "C03",
        level: "exploration",
        stats,
        evaluations_key: "data_checked",
        nontrivial_key: "distinct_data",
        rule: "every data returned by a non-failing run in generated honest multi-peer histories (success and catchable-error outcomes; a sub-workload makes services return non-JSON 'successful' results) is decoded, verified with the independent verifier (store item hashes, referential closure, per-peer ed25519 signatures for this particle) and offered as current data to the observer and a random other peer; distinct by data bytes".into(),
        assumptions: vec!["independent verifier oracle::verify; third-party sha2/blake3/ed25519-dalek".into()],
    }
}
