//! C11: a canonicalised stream is fixed once and identical everywhere.
use super::honest::*;
use super::streams;
use crate::ast::{Ins, Val};
use crate::oracle::pathkey;
use crate::proj::{self, St};
use crate::report::*;
use serde_json::{json, Value};
use std::collections::{BTreeMap, BTreeSet};

fn canon_values(data: &Value, cid: &str) -> Option<Vec<Value>> {
    let (_, vals) = proj::canon_result(data, cid)?;
    vals.iter().map(|(v, _, _)| serde_json::from_str::<Value>(v).ok()).collect()
}

fn canon_cids(data: &Value) -> BTreeMap<String, u64> {
    let mut m = BTreeMap::new();
    for s in proj::states(data) {
        if let St::CanonExec(c) = s {
            *m.entry(c).or_default() += 1;
        }
    }
    m
}

/// function name -> indexes of arguments that are whole canon streams / canon maps
fn canon_arg_sites(ins: &Ins) -> BTreeMap<String, Vec<usize>> {
    let mut m = BTreeMap::new();
    ins.walk(&mut |i| {
        if let Ins::Call { func: Val::Lit(f), args, .. } = i {
            let idx: Vec<usize> = args.iter().enumerate().filter(|(_, a)| matches!(a, Val::Var(n) if n.starts_with('#'))).map(|(k, _)| k).collect();
            if !idx.is_empty() {
                m.insert(f.clone(), idx);
            }
        }
    });
    m
}

pub fn run(cfg: &Cfg) -> Report {
    let n = cfg.scale(1500, 40000);
    let stats = run_honest(cfg, 11, n, &[Frag::Stream, Frag::StreamNoFail], |c, case, _rng, st| {
        let w = &c.world;
        let sites = w.script.as_ref().map(canon_arg_sites).unwrap_or_default();
        // (a) one content id per canon instruction instance, over every data of every peer
        let mut by_key: BTreeMap<String, BTreeMap<String, (usize, usize)>> = BTreeMap::new();
        for s in &c.history.steps {
            if !s.produced_new_data() {
                continue;
            }
            let Some(ov) = &s.out_v else { continue };
            let states = proj::states(ov);
            let keys = pathkey::keys(&states);
            for (i, stt) in states.iter().enumerate() {
                if let St::CanonExec(cid) = stt {
                    st.inc("executed_canon_states_seen", 1);
                    by_key.entry(keys[i].clone()).or_default().entry(cid.clone()).or_insert((s.idx, s.peer));
                }
            }
        }
        for (key, cids) in &by_key {
            st.inc("canon_instances", 1);
            let peers: BTreeSet<usize> = c.history.steps.iter().filter(|s| s.out_v.as_ref().map(|v| proj::states(v).iter().any(|x| matches!(x, St::CanonExec(c) if cids.contains_key(c)))).unwrap_or(false)).map(|s| s.peer).collect();
            if peers.len() >= 2 {
                st.seen("canon_instances_seen_by_several_peers", crate::rng::fnv(format!("{}|{key}", w.air).as_bytes()));
            }
            if cids.len() > 1 {
                let desc: Vec<String> = cids.iter().map(|(c, (step, peer))| format!("{} first at step {step} ({})", proj::short(c), w.peers[*peer].name)).collect();
                st.violation("C11", "canon-differs-between-data", &format!("the canon instruction instance {key} is bound to {} different canonical values: {:?}", cids.len(), desc), case, json!({"history": history_sample(c, 80)}));
            }
        }
        for s in &c.history.steps {
            if !s.produced_new_data() {
                continue;
            }
            let (Some(pv), Some(cv), Some(ov)) = (&s.prev_v, &s.cur_v, &s.out_v) else { continue };
            // (b) a canon created in this run holds exactly the snapshot the designated peer took
            let m = streams::build(&s.out.events);
            let first: Vec<&streams::Snapshot> = m.snapshots.iter().filter(|x| x.first_time_peer.is_some()).collect();
            let (kp, kc, ko) = (canon_cids(pv), canon_cids(cv), canon_cids(ov));
            let mut new_lists: Vec<Vec<Value>> = vec![];
            for (cid, cnt) in &ko {
                let before = kp.get(cid).cloned().unwrap_or(0).max(kc.get(cid).cloned().unwrap_or(0));
                for _ in before..*cnt {
                    if let Some(vals) = canon_values(ov, cid) {
                        new_lists.push(vals);
                    }
                    let owner = proj::canon_result(ov, cid).and_then(|(t, _)| t["peer_pk"].as_str().map(|x| x.to_string()));
                    if owner.as_deref() != Some(w.peers[s.peer].id.as_str()) {
                        st.violation("C11", "canon-created-by-non-designated-peer", &format!("step {}: {} newly recorded canon {} attributed to {:?}", s.idx, w.peers[s.peer].name, proj::short(cid), owner.map(|o| w.peer_name(&o))), case, json!({"step": s.idx, "history": history_sample(c, 60)}));
                    }
                }
            }
            let mut snap_lists: Vec<Vec<Value>> = first.iter().map(|x| x.values.iter().filter_map(|v| serde_json::from_str::<Value>(v).ok()).collect()).collect();
            if !first.is_empty() || !new_lists.is_empty() {
                st.inc("runs_creating_canons", 1);
                let mut a: Vec<String> = new_lists.iter().map(|l| serde_json::to_string(l).unwrap_or_default()).collect();
                let mut b: Vec<String> = snap_lists.iter().map(|l| serde_json::to_string(l).unwrap_or_default()).collect();
                a.sort();
                b.sort();
                if a != b && s.class() == crate::invoke::CodeClass::Success {
                    st.violation("C11", "canon-content-differs-from-snapshot", &format!("step {} at {}: canons created in this run hold {:?} but the stream snapshots taken were {:?}", s.idx, w.peers[s.peer].name, a.iter().map(|x| proj::trunc(x, 80)).collect::<Vec<_>>(), b.iter().map(|x| proj::trunc(x, 80)).collect::<Vec<_>>()), case, json!({"step": s.idx, "history": history_sample(c, 60)}));
                }
                for l in &snap_lists {
                    if l.len() >= 2 {
                        st.inc("canons_created_with_several_values", 1);
                    }
                }
            }
            snap_lists.clear();
            // (d) services that receive a canon receive exactly the values of a canon recorded in the data
            if let Ok(reqs) = &s.out.requests {
                for (id, r) in reqs {
                    if let Some(idx) = sites.get(&r.function) {
                        let known: Vec<Vec<Value>> = ko.keys().filter_map(|cid| canon_values(ov, cid)).collect();
                        for k in idx {
                            let Some(arg) = r.args.get(*k) else { continue };
                            st.inc("canon_arguments_checked", 1);
                            // a canon map argument is an object of key -> values; only streams (arrays) are judged here
                            if let Some(arr) = arg.as_array() {
                                let plain = known.iter().any(|l| l == arr);
                                let kv = known.iter().any(|l| l.iter().map(|e| e.get("value").cloned().unwrap_or(Value::Null)).collect::<Vec<_>>() == *arr);
                                if !plain && !kv {
                                    st.violation("C11", "service-received-other-canon-content", &format!("step {}: request {id} ({}) received {} as a canon argument, which is not the content of any canon recorded in the peer's data", s.idx, r.function, proj::trunc(&arg.to_string(), 120)), case, json!({"step": s.idx, "history": history_sample(c, 60)}));
                                }
                            }
                        }
                    }
                }
            }
        }
    });
    Report {
        prop: "C11",
        level: "exploration",
        stats,
        evaluations_key: "executed_canon_states_seen",
        nontrivial_key: "canon_instances_seen_by_several_peers",
        rule: "honest histories of generated scripts with streams and stream maps appended on several peers and canonicalised at one of them, appends continuing afterwards, all delivery orders the scheduler produces. Every executed canon state of every data of every peer is keyed by its structural position (par branch, fold iteration identified by the value visited, ordinal); one key must never be bound to two content ids. In the run that creates a canon, its content must equal the snapshot of the stream reported by the event sink (C13 checks that the snapshot equals the appends so far) and it must be attributed to the running peer. A service that receives a canon stream as argument must receive the content of a canon recorded in that peer's data. Non-trivial = canon instances present in the data of at least two peers".into(),
        assumptions: vec!["structural keys identify instruction instances across honest traces of one particle (oracle::pathkey)".into()],
    }
}
