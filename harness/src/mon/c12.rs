//! C12: a peer never reorders the stream values it has already seen.
use super::honest::*;
use super::streams::{self, Src};
use crate::invoke::*;
use crate::proj::{self, St};
use crate::report::*;
use serde_json::json;
use std::collections::BTreeSet;

pub fn run(cfg: &Cfg) -> Report {
    let n = cfg.scale(1500, 40000);
    let stats = run_honest(cfg, 12, n, &[Frag::Stream, Frag::StreamNoFail], |c, case, _rng, st| {
        let w = &c.world;
        for s in &c.history.steps {
            if s.out.events.is_empty() || s.class() != CodeClass::Success {
                continue;
            }
            let Some(ov) = &s.out_v else { continue };
            let states = proj::states(ov);
            let out_gen = |pos: u32| -> Option<u64> {
                match states.get(pos as usize) {
                    Some(St::Ap(g)) => g.first().cloned(),
                    Some(St::CallExec { kind: "stream", generation, .. }) => *generation,
                    _ => None,
                }
            };
            let m = streams::build(&s.out.events);
            let ctx = || json!({"step": s.idx, "history": history_sample(c, 60)});
            for inst in &m.instances {
                if inst.adds.is_empty() {
                    continue;
                }
                st.inc("stream_instances_checked", 1);
                let items: Vec<(&streams::Add, u64)> = inst.adds.iter().filter_map(|a| out_gen(a.trace_pos).map(|g| (a, g))).collect();
                if items.len() != inst.adds.len() {
                    st.violation("C12", "value-without-output-generation", &format!("step {}: a value put into {} has no stream value entry in the output trace", s.idx, inst.name), case, ctx());
                    continue;
                }
                let sources: BTreeSet<u8> = items.iter().map(|(a, _)| a.src.rank().0).collect();
                if sources.len() >= 2 {
                    st.inc("instances_mixing_sources", 1);
                    st.seen("mixed_source_instances", crate::rng::fnv(format!("{}|{}|{}|{:?}", w.air, s.idx, inst.id, items.iter().map(|(a, g)| (a.src.rank(), *g)).collect::<Vec<_>>()).as_bytes()));
                }
                if sources.len() == 3 {
                    st.inc("instances_with_three_sources", 1);
                }
                // order inside previous and inside current is preserved (equal stays equal)
                for (i, (a, ga)) in items.iter().enumerate() {
                    for (b, gb) in items.iter().skip(i + 1) {
                        let (ra, rb) = (a.src.rank(), b.src.rank());
                        if ra.0 == rb.0 && ra.0 < 2 {
                            let src = if ra.0 == 0 { "previous" } else { "current" };
                            let bad = (ra.1 < rb.1 && !(ga < gb)) || (ra.1 > rb.1 && !(ga > gb)) || (ra.1 == rb.1 && ga != gb);
                            if bad {
                                st.violation("C12", &format!("order-inside-{src}-changed"), &format!("step {} at {}: values of {} with {src} generations {} and {} got output generations {ga} and {gb}", s.idx, w.peers[s.peer].name, inst.name, ra.1, rb.1), case, ctx());
                            }
                        } else if ra.0 != rb.0 {
                            // previous before current before new
                            let bad = (ra.0 < rb.0 && !(ga < gb)) || (ra.0 > rb.0 && !(ga > gb));
                            if bad {
                                let name = |r: u8| ["previous", "current", "new"][r as usize];
                                st.violation("C12", &format!("{}-not-before-{}", name(ra.0.min(rb.0)), name(ra.0.max(rb.0))), &format!("step {} at {}: in {} a {} value got output generation {ga} and a {} value got {gb}", s.idx, w.peers[s.peer].name, inst.name, name(ra.0), name(rb.0)), case, ctx());
                            }
                        }
                    }
                }
                // the same clause decided at the boundary, independently of what the event sink reports as the
                // source generation: stream call results present in the previous data (matched by content id,
                // ids occurring once) keep the relative order of their generations in the output
                if let Some(pv) = &s.prev_v {
                    let mut prev_gen: std::collections::BTreeMap<String, Vec<u64>> = Default::default();
                    for ps in proj::states(pv) {
                        if let St::CallExec { kind: "stream", cid, generation: Some(g) } = ps {
                            prev_gen.entry(cid).or_default().push(g);
                        }
                    }
                    let mut out_count: std::collections::BTreeMap<&str, usize> = Default::default();
                    for os in &states {
                        if let St::CallExec { kind: "stream", cid, .. } = os {
                            *out_count.entry(cid.as_str()).or_default() += 1;
                        }
                    }
                    let seen: Vec<(u64, u64)> = inst
                        .adds
                        .iter()
                        .filter_map(|a| match states.get(a.trace_pos as usize) {
                            Some(St::CallExec { kind: "stream", cid, generation: Some(g) }) if out_count.get(cid.as_str()) == Some(&1) => match prev_gen.get(cid) {
                                Some(pg) if pg.len() == 1 => Some((pg[0], *g)),
                                _ => None,
                            },
                            _ => None,
                        })
                        .collect();
                    if seen.len() >= 2 {
                        st.inc("instances_with_two_values_already_in_previous_data", 1);
                    }
                    for (i, (pa, oa)) in seen.iter().enumerate() {
                        for (pb, ob) in seen.iter().skip(i + 1) {
                            st.inc("seen_value_pairs_checked_at_the_boundary", 1);
                            let bad = (pa < pb && !(oa < ob)) || (pa > pb && !(oa > ob)) || (pa == pb && oa != ob);
                            if bad {
                                st.violation("C12", "seen-values-reordered", &format!("step {} at {}: two values of {} had generations {pa} and {pb} in the previous data of this peer and have {oa} and {ob} in its output", s.idx, w.peers[s.peer].name, inst.name), case, ctx());
                            }
                        }
                    }
                }
                // dense renumbering 0..k-1
                let gens: BTreeSet<u64> = items.iter().map(|(_, g)| *g).collect();
                let k = gens.len() as u64;
                if gens.iter().next() != Some(&0) || gens.iter().last() != Some(&(k - 1)) {
                    st.violation("C12", "generations-not-dense", &format!("step {} at {}: output generations of {} are {:?}, not 0..{}", s.idx, w.peers[s.peer].name, inst.name, gens, k - 1), case, ctx());
                }
                let _ = Src::New;
            }
        }
    });
    Report {
        prop: "C12",
        level: "exploration",
        stats,
        evaluations_key: "stream_instances_checked",
        nontrivial_key: "mixed_source_instances",
        rule: "every successful run of generated honest histories with streams appended locally and remotely (late results, so generations from previous data, current data and the run itself are compacted together), new-scoped and recursive streams; the event sink reports for every value put into a stream instance its source (previous/current generation index, or new) and trace position, the output trace gives its final generation. Checked per stream instance: order by generation inside previous and inside current is preserved (equal stays equal), previous < current < new, output generations are exactly 0..k-1. Non-trivial = instances mixing at least two sources; distinct by the (source, generation) layout".into(),
        assumptions: vec!["stream instances (global or per `new` scope execution) are rebuilt from scope start/end events".into()],
    }
}
