//! C02: failed runs return prev untouched; outcomes follow the code ranges.
use super::honest::*;
use crate::invoke::*;
use crate::oracle::verify;
use crate::proj::{self, St};
use crate::report::*;
use crate::rng::fnv;
use crate::sim::Step;
use serde_json::json;

pub fn input_hash(i: &RunInput) -> u64 {
    let cr = match &i.call_results {
        CallResultsIn::Map(m) => fnv(format!("{:?}", m).as_bytes()),
        CallResultsIn::Raw(b) => fnv(b),
    };
    fnv(i.air.as_bytes()) ^ fnv(&i.prev).rotate_left(13) ^ fnv(&i.cur).rotate_left(29) ^ cr.rotate_left(41) ^ fnv(i.peer_id.as_bytes()).rotate_left(7)
}

/// The outcome rule of C02 for one run. `given`: results handed in (id -> (ret_code, result, function)).
/// Returns (signature, description) of the first defect.
pub fn check_outcome(input: &RunInput, out: &RunOutcome, given: &[(String, i32, String)], particle_id: &str) -> Option<(String, String)> {
    let class = classify(out.ret_code);
    match class {
        CodeClass::Preparation | CodeClass::Uncatchable => {
            if out.data != input.prev {
                return Some((
                    format!("failed-run-data-not-prev@{}", crate::errcodes::table().name(out.ret_code)),
                    format!("run failed with code {} ({}) but returned data of {} bytes that differs from the previous data ({} bytes)", out.ret_code, proj::trunc(&out.error_message, 120), out.data.len(), input.prev.len()),
                ));
            }
            if !out.next_peers.is_empty() {
                return Some((format!("failed-run-next-peers@{}", out.ret_code), format!("run failed with code {} but names next peers {:?}", out.ret_code, out.next_peers)));
            }
            match &out.requests {
                Ok(r) if r.is_empty() => {}
                Ok(r) => return Some((format!("failed-run-call-requests@{}", out.ret_code), format!("run failed with code {} but carries {} call requests", out.ret_code, r.len()))),
                Err(e) => return Some((format!("failed-run-requests-undecodable@{}", out.ret_code), format!("run failed with code {}: call requests do not decode: {e}", out.ret_code))),
            }
            None
        }
        CodeClass::Success | CodeClass::Catchable | CodeClass::Farewell => {
            if out.data.is_empty() {
                return Some((format!("empty-data@{}", out.ret_code), format!("run ended with code {} but returned empty data", out.ret_code)));
            }
            let v = match proj::decode(&out.data) {
                Ok(v) => v,
                Err(e) => return Some((format!("undecodable-data@{}", out.ret_code), format!("run ended with code {} but its data does not decode: {e}", out.ret_code))),
            };
            if let Err(e) = verify::verify(&v.data, particle_id) {
                return Some((format!("unverifiable-data@{}", out.ret_code), format!("run ended with code {} but its data does not verify: {e}", out.ret_code)));
            }
            let states = proj::states(&v.data);
            let reqs = match &out.requests {
                Ok(r) => r,
                Err(e) => return Some(("requests-undecodable".into(), format!("call requests do not decode: {e}"))),
            };
            for id in reqs.keys() {
                let found = states.iter().any(|s| matches!(s, St::CallSent(p, Some(i)) if *p == input.peer_id && *i == *id as u64));
                if !found {
                    return Some(("request-without-sent-state".into(), format!("call request {id} was returned but the data has no sent_by({}, {id}) state", proj::short(&input.peer_id))));
                }
            }
            for (id, code, res) in given {
                let mut found = false;
                for s in &states {
                    match s {
                        St::CallExec { kind, cid, .. } if *code == 0 => {
                            if *kind == "unused" {
                                if crate::oracle::cidv::cid_of_bytes(res.as_bytes()) == *cid {
                                    found = true;
                                }
                                // the interpreter stores the re-serialized value
                                if let Ok(val) = serde_json::from_str::<serde_json::Value>(res) {
                                    if crate::oracle::cidv::cid_of_bytes(val.to_string().as_bytes()) == *cid {
                                        found = true;
                                    }
                                }
                            } else if let Some((val, t, _)) = proj::service_result(&v.data, cid) {
                                let same = val == res || serde_json::from_str::<serde_json::Value>(val).ok() == serde_json::from_str::<serde_json::Value>(res).ok();
                                if same && t.get("peer_pk").and_then(|x| x.as_str()) == Some(input.peer_id.as_str()) {
                                    found = true;
                                }
                            }
                        }
                        St::CallFailed(cid) => {
                            if let Some((val, t, _)) = proj::service_result(&v.data, cid) {
                                if t.get("peer_pk").and_then(|x| x.as_str()) == Some(input.peer_id.as_str()) {
                                    if let Ok(f) = serde_json::from_str::<serde_json::Value>(val) {
                                        let rc = f.get("ret_code").and_then(|x| x.as_i64());
                                        let msg = f.get("message").and_then(|x| x.as_str()).unwrap_or("");
                                        if *code != 0 && rc == Some(*code as i64) && msg == res {
                                            found = true;
                                        }
                                        // a "successful" result that is not JSON is recorded as a failure mentioning the text
                                        if *code == 0 && msg.contains(res.as_str()) {
                                            found = true;
                                        }
                                    }
                                }
                            }
                        }
                        _ => {}
                    }
                    if found {
                        break;
                    }
                }
                let reported = out.ret_code == 30000 && out.error_message.contains(&format!("\"{id}\""));
                if !found && !reported {
                    return Some((
                        "consumed-result-missing".into(),
                        format!("the result for call id {id} (ret_code {code}, {}) was handed in, the run ended with code {}, but the data has no executed/failed state carrying it and it is not reported as unprocessed", proj::trunc(res, 60), out.ret_code),
                    ));
                }
            }
            None
        }
        CodeClass::Other => {
            if out.ret_code == PANIC_CODE {
                Some((format!("panic@{}", out.error_message.split(" :: ").next().unwrap_or("?").trim_start_matches("PANIC at ")), format!("the interpreter panicked: {}", proj::trunc(&out.error_message, 200))))
            } else {
                Some((format!("code-outside-ranges@{}", out.ret_code), format!("ret_code {} lies outside every documented range", out.ret_code)))
            }
        }
    }
}

pub fn given_of(step: &Step) -> Vec<(String, i32, String)> {
    step.results_given.iter().map(|(id, (_, c, r))| (id.to_string(), *c, r.clone())).collect()
}

pub fn check_step(c: &Case, s: &Step, case: u64, st: &mut Stats) {
    st.inc("runs_checked", 1);
    let class = s.class();
    if !s.results_given.is_empty() || !s.produced_new_data() {
        st.seen("nontrivial_runs", input_hash(&s.input));
    }
    if !s.produced_new_data() {
        st.inc("failed_runs", 1);
        st.label("failed_run_codes", &crate::errcodes::table().name(s.out.ret_code));
    }
    if !s.results_given.is_empty() {
        st.inc("runs_consuming_results", 1);
    }
    let _ = class;
    if let Some((sig, what)) = check_outcome(&s.input, &s.out, &given_of(s), &c.world.particle_id) {
        st.violation("C02", &sig, &what, case, json!({"step": s.idx, "history": history_sample(c, 40)}));
    }
}

pub fn run(cfg: &Cfg) -> Report {
    let n = cfg.scale(1500, 30000);
    let mut stats = run_honest(cfg, 2, n, &[Frag::Seq, Frag::Stream], |c, case, rng, st| {
        for s in &c.history.steps {
            check_step(c, s, case, st);
        }
        // failed runs on hostile current data: the peer holds honest, non-empty previous data and
        // receives damaged bytes (truncated, flipped, spliced, garbage inner data, other versions)
        let cands: Vec<&Step> = c.history.steps.iter().filter(|s| !s.input.prev.is_empty() && !s.input.cur.is_empty()).collect();
        for _ in 0..3.min(cands.len()) {
            let s = cands[rng.below(cands.len())];
            let cur = &s.input.cur;
            let damaged: Vec<u8> = match rng.below(6) {
                0 => cur[..cur.len() / 2].to_vec(),
                1 => {
                    let n = 1 + rng.below(64);
                    rng.bytes(n)
                }
                2 => {
                    let mut b = cur.clone();
                    let i = rng.below(b.len());
                    b[i] ^= 1 << rng.below(8);
                    b
                }
                3 => {
                    let n = 1 + rng.below(40);
                    let garbage = rng.bytes(n);
                    proj::wrap_inner(&garbage, "0.9.0", &air::interpreter_version().to_string()).unwrap_or_default()
                }
                4 => proj::inner_bytes(cur).ok().and_then(|i| proj::wrap_inner(&i, "0.9.0", "0.1.0").ok()).unwrap_or_default(),
                _ => crate::tamper::mutate_bytes(rng, cur),
            };
            if damaged.is_empty() || damaged == *cur {
                continue;
            }
            let mut input = s.input.clone();
            input.cur = damaged;
            input.call_results = CallResultsIn::empty();
            let out = invoke(&input);
            st.inc("runs_checked", 1);
            st.inc("runs_on_damaged_current_data", 1);
            if !matches!(classify(out.ret_code), CodeClass::Success) {
                st.inc("failed_runs", 1);
                st.inc("failed_runs_on_damaged_current_data", 1);
                st.label("failed_run_codes", &crate::errcodes::table().name(out.ret_code));
                st.seen("nontrivial_runs", input_hash(&input));
            }
            if let Some((sig, what)) = check_outcome(&input, &out, &[], &c.world.particle_id) {
                // data that survives the damage and merges is judged by the other clauses; only the
                // failed-run clause is decided here
                if sig.starts_with("failed-run") || sig.starts_with("code-outside") || sig.starts_with("panic") {
                    st.violation("C02", &format!("{sig}@damaged-current-data"), &what, case, json!({"step": s.idx, "input": serde_json::to_value(&input).unwrap_or_default(), "history": history_sample(c, 20)}));
                }
            }
        }
    });
    // late uncatchable failures: recursive stream folds that run into the stream size limit after
    // service results were applied, and shadowing errors late in a script
    let late = crate::mon::late::run_late_failures(cfg, cfg.scale(160, 4000));
    stats.merge(late);
    Report {
        prop: "C02",
        level: "exploration",
        stats,
        evaluations_key: "runs_checked",
        nontrivial_key: "nontrivial_runs",
        rule: "every interpreter run of generated multi-peer histories (F-seq and F-stream scripts, random schedules with duplication and late/batched results) plus a late-failure workload (uncatchable errors raised after call results were applied); the outcome rule is evaluated on each run; a run is non-trivial if it consumed call results or ended in a failure class; distinct by hash of all inputs".into(),
        assumptions: vec!["the host model hands back only results for ids it was asked for".into(), "data verification uses the harness's independent verifier (oracle::verify)".into()],
    }
}
