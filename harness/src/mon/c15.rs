//! C15: a peer cannot present two incompatible versions of its own results.
//!
//! Fault enumeration. A peer E is driven to a point where k independent calls of it are pending
//! (a par of calls, possibly the same call twice so that result ids repeat). Its host is then
//! forked: for every pair of subsets (S1, S2) of the pending calls, branch 1 answers exactly S1 and
//! branch 2 exactly S2, giving two data that are both honestly produced and signed by E. A victim
//! (another peer of the script, or an observer) receives the first, stores what comes back, then
//! receives the second. Oracle, computed on multisets of E's result ids read from the two data with
//! the harness's own decoder: if neither multiset contains the other the second run must be rejected
//! with the signature-check preparation error and return the previous data; otherwise it must not be
//! rejected for that reason and E's signature in the output must be the one of the version with the
//! larger multiset, verifying over that multiset (independent ed25519 check).
use crate::invoke::*;
use crate::oracle::verify;
use crate::proj;
use crate::report::*;
use crate::rng::{fnv, Rng};
use crate::sim::*;
use crate::tamper::cids_of_peer;
use serde_json::json;
use std::collections::BTreeMap;

fn multiset(v: &[String]) -> BTreeMap<String, usize> {
    let mut m = BTreeMap::new();
    for c in v {
        *m.entry(c.clone()).or_default() += 1;
    }
    m
}

fn contains(a: &BTreeMap<String, usize>, b: &BTreeMap<String, usize>) -> bool {
    b.iter().all(|(k, n)| a.get(k).copied().unwrap_or(0) >= *n)
}

/// Drive E alone until `k` requests of the par are pending; returns (E's data, pending requests).
fn drive_to_fork(w: &World, e: usize) -> Option<(Vec<u8>, BTreeMap<u32, CallRequest>, u64)> {
    let peer = &w.peers[e];
    let mut prev = vec![];
    let mut pending: BTreeMap<u32, CallRequest> = BTreeMap::new();
    let mut runs = 0;
    for round in 0..6 {
        let mut input = w.input(peer);
        input.prev = prev.clone();
        let mut cr = BTreeMap::new();
        // answer the prefix calls (function names starting with "pre"), keep the forked ones pending
        let ids: Vec<u32> = pending.iter().filter(|(_, r)| r.function.starts_with("pre")).map(|(i, _)| *i).collect();
        if round > 0 && ids.is_empty() {
            break;
        }
        for id in ids {
            let r = pending.remove(&id).unwrap();
            let (c, res) = w.serve(&r.function, &r.args);
            cr.insert(id.to_string(), (c, res));
        }
        input.call_results = CallResultsIn::Map(cr);
        let o = invoke(&input);
        runs += 1;
        if o.ret_code != 0 {
            return None;
        }
        if let Ok(reqs) = &o.requests {
            for (id, r) in reqs {
                pending.insert(*id, r.clone());
            }
        }
        prev = o.data;
    }
    Some((prev, pending, runs))
}

fn answer(w: &World, e: usize, prev: &[u8], pending: &BTreeMap<u32, CallRequest>, ids: &[u32]) -> RunOutcome {
    let mut input = w.input(&w.peers[e]);
    input.prev = prev.to_vec();
    let mut cr = BTreeMap::new();
    for id in ids {
        let r = &pending[id];
        let (c, res) = w.serve(&r.function, &r.args);
        cr.insert(id.to_string(), (c, res));
    }
    input.call_results = CallResultsIn::Map(cr);
    invoke(&input)
}

pub fn run(cfg: &Cfg) -> Report {
    let n = cfg.scale(120, 3000);
    let sig_code = crate::errcodes::table().code("Prep::DataSignatureCheckError");
    let stats = par_cases(cfg, n, |case, st| {
        let mut rng = Rng::derive(cfg.seed, 15, case);
        let n_peers = rng.range(2, 4);
        let ids = standard_peer_ids(n_peers);
        let e = rng.below(n_peers);
        let ep = &ids[e];
        // k forked calls; some of them identical (same function and arguments => same result id)
        let k = rng.range(2, if cfg.thorough { 4 } else { 3 });
        let mut calls = vec![];
        for i in 0..k {
            let (f, arg) = if i > 0 && rng.chance(1, 4) { (format!("f{}", i - 1), i - 1) } else { (format!("f{i}"), i) };
            let kind_err = rng.chance(1, 6);
            let f = if kind_err { f.replacen('f', "e", 1) } else { f };
            let out = if rng.chance(1, 3) { format!(" $s{}", rng.below(2)) } else if kind_err { String::new() } else { format!(" o{i}") };
            let c = format!("(call \"{ep}\" (\"svc\" \"{f}\") [{arg}]{out})");
            calls.push(if kind_err { format!("(xor {c} (null))") } else { c });
        }
        let n_pre = rng.below(3);
        let mut parts: Vec<String> = (0..n_pre).map(|i| format!("(call \"{ep}\" (\"svc\" \"pre{i}\") [] p{i})")).collect();
        let tail: Vec<String> = (0..n_peers).filter(|p| *p != e).map(|p| format!("(call \"{}\" (\"svc\" \"tail{p}\") [])", ids[p])).collect();
        parts.push(nest(&calls, "par"));
        let air = format!("(seq {} {})", nest(&parts, "seq"), nest(&tail, "par"));
        // wrap so that the tail calls make E forward the particle whatever subset completes
        let air = format!("(par {air} (null))");
        if air_parser::parse(&air).is_err() {
            st.inc("generator_rejected_or_failed", 1);
            return;
        }
        let w = World::new(n_peers, air.clone(), None, &format!("c15-{}-{case}", cfg.seed), 3);
        // the init peer is peers[0]; E may be any peer: start E with empty data (a particle may reach it first)
        let Some((base, pending, r0)) = drive_to_fork(&w, e) else {
            st.inc("cases_where_the_prefix_failed", 1);
            return;
        };
        st.inc("runs", r0);
        let forked: Vec<u32> = pending.iter().filter(|(_, r)| !r.function.starts_with("pre")).map(|(i, _)| *i).collect();
        if forked.len() < 2 {
            st.inc("cases_with_less_than_two_pending_calls", 1);
            return;
        }
        st.inc("fork_points", 1);
        // every subset of the pending calls gives one honestly signed version of E's data
        let m = forked.len();
        let mut versions: Vec<(u32, Vec<u8>, BTreeMap<String, usize>)> = vec![];
        for mask in 0..(1u32 << m) {
            let sel: Vec<u32> = (0..m).filter(|b| mask & (1 << b) != 0).map(|b| forked[b]).collect();
            let o = if sel.is_empty() { None } else { Some(answer(&w, e, &base, &pending, &sel)) };
            st.inc("runs", 1);
            let data = match o {
                None => base.clone(),
                Some(o) if matches!(classify(o.ret_code), CodeClass::Success | CodeClass::Catchable) => o.data,
                Some(_) => continue,
            };
            let Ok(v) = proj::decode(&data) else { continue };
            versions.push((mask, data, multiset(&cids_of_peer(&v.data, ep))));
        }
        let victims: Vec<crate::keys::Peer> = {
            let mut v = vec![w.observer.clone()];
            v.extend(w.peers.iter().enumerate().filter(|(i, _)| *i != e).map(|(_, p)| p.clone()));
            v
        };
        for (m1, d1, s1) in &versions {
            for (m2, d2, s2) in &versions {
                if m1 == m2 {
                    continue;
                }
                let victim = &victims[rng.below(victims.len())];
                let mut i1 = w.input(victim);
                i1.cur = d1.clone();
                let o1 = invoke(&i1);
                st.inc("runs", 1);
                if !matches!(classify(o1.ret_code), CodeClass::Success | CodeClass::Catchable) {
                    st.violation("C15", "honest-version-rejected", &format!("{} rejects a single honest version of E's data: {} {}", victim.name, o1.ret_code, proj::trunc(&o1.error_message, 120)), case, json!({"air": air, "mask": m1}));
                    continue;
                }
                let mut i2 = w.input(victim);
                i2.prev = o1.data.clone();
                i2.cur = d2.clone();
                // a participating victim may have requests pending from the first run; none are answered
                let o2 = invoke(&i2);
                st.inc("runs", 1);
                st.inc("pairs", 1);
                let comparable = contains(s1, s2) || contains(s2, s1);
                let detail = || json!({"air": air, "victim": victim.name, "first_mask": m1, "second_mask": m2, "first_set": s1, "second_set": s2, "second_run": {"code": o2.ret_code, "message": proj::trunc(&o2.error_message, 200)}});
                st.seen("nontrivial_pairs", fnv(d1) ^ fnv(d2).rotate_left(19) ^ fnv(victim.id.as_bytes()));
                if !comparable {
                    st.inc("incomparable_pairs", 1);
                    if s1.values().chain(s2.values()).any(|n| *n > 1) {
                        st.inc("incomparable_pairs_with_repeated_ids", 1);
                    }
                    if o2.ret_code != sig_code {
                        st.violation("C15", "incompatible-versions-accepted", &format!("E's result sets {:?} and {:?} are incomparable, yet the second run at {} ended with code {} instead of the signature-check error", s1.values().collect::<Vec<_>>(), s2.values().collect::<Vec<_>>(), victim.name, o2.ret_code), case, detail());
                    } else if o2.data != i2.prev || !o2.next_peers.is_empty() || o2.requests.as_ref().map(|r| !r.is_empty()).unwrap_or(true) {
                        st.violation("C15", "rejection-does-not-return-prev", "the incompatible second version was rejected but the run did not return the previous data untouched", case, detail());
                    }
                } else {
                    st.inc("comparable_pairs", 1);
                    if s1 != s2 && s1.values().chain(s2.values()).any(|n| *n > 1) {
                        st.inc("comparable_pairs_differing_in_multiplicity", 1);
                    }
                    if o2.ret_code == sig_code {
                        st.violation("C15", "compatible-versions-rejected", &format!("one of E's result sets contains the other, yet the second run at {} was rejected: {}", victim.name, proj::trunc(&o2.error_message, 160)), case, detail());
                        continue;
                    }
                    if !matches!(classify(o2.ret_code), CodeClass::Success | CodeClass::Catchable) {
                        st.violation("C15", &format!("compatible-versions-fail@{}", crate::errcodes::table().name(o2.ret_code)), &format!("the second run failed with {} {}", o2.ret_code, proj::trunc(&o2.error_message, 160)), case, detail());
                        continue;
                    }
                    match proj::decode(&o2.data) {
                        Ok(v) => {
                            // "the merged data keeps, for each peer, the signature over its larger result set":
                            // E's entry in the output's signature store is the one of the larger version, and
                            // it verifies over that version's multiset for this particle
                            let (larger_data, larger_set) = if contains(s1, s2) { (d1, s1) } else { (d2, s2) };
                            let pk = &w.peers[e].pk_b58;
                            let sig_of = |data: &serde_json::Value| data.get("signatures").and_then(|s| s.get(pk)).and_then(|x| x.as_str()).map(|x| x.to_string());
                            let want = proj::decode(larger_data).ok().and_then(|lv| sig_of(&lv.data));
                            let got = sig_of(&v.data);
                            if got.is_none() || got != want {
                                st.violation("C15", "merged-data-does-not-keep-the-larger-sets-signature", &format!("E's signature in the output ({:?}) is not the one of the version with the larger result set ({:?})", got.as_deref().map(|g| proj::trunc(g, 16)), want.as_deref().map(|g| proj::trunc(g, 16))), case, detail());
                            } else if let Some((_, key)) = verify::peer_id_of_store_key(pk) {
                                let mut ids: Vec<String> = vec![];
                                for (c, n) in larger_set {
                                    for _ in 0..*n {
                                        ids.push(c.clone());
                                    }
                                }
                                ids.sort();
                                if let Err(err) = verify::check_sig(&key, got.as_deref().unwrap_or(""), &ids, &w.particle_id) {
                                    st.violation("C15", "kept-signature-does-not-verify-over-the-larger-set", &err, case, detail());
                                } else {
                                    st.inc("kept_signatures_verified_over_the_larger_set", 1);
                                }
                            }
                            // information only (not demanded by the statement): with identical calls two
                            // comparable versions can occupy different call positions, and the merged trace
                            // then holds more results of E than either signed version
                            let merged = multiset(&cids_of_peer(&v.data, ep));
                            if &merged != larger_set {
                                st.inc("info_merged_trace_holds_more_results_than_the_larger_version", 1);
                            } else if verify::verify(&v.data, &w.particle_id).is_ok() {
                                st.inc("merged_outputs_fully_verified", 1);
                            }
                        }
                        Err(err) => st.violation("C15", "merged-output-undecodable", &err, case, detail()),
                    }
                }
            }
        }
        if case < 3 {
            st.sample(json!({"air": air, "forked_calls": forked.len(), "versions": versions.iter().map(|(m, _, s)| json!({"answered_mask": m, "results_of_E": s.values().sum::<usize>()})).collect::<Vec<_>>()}));
        }
    });
    Report {
        prop: "C15",
        level: "fault_enumeration",
        stats,
        evaluations_key: "pairs",
        nontrivial_key: "nontrivial_pairs",
        rule: "fault = two honestly signed versions of one peer's data that answer different subsets of the same pending calls. Per case: a generated par of 2-4 calls at E (stream, scalar and failing calls, identical calls so ids repeat), E driven to the fork point, ALL subsets answered (2^k versions), ALL ordered pairs of different versions delivered one after the other to a victim (observer or participating peer). Incomparable multisets must be rejected with the signature-check error and prev returned; comparable ones must be merged and the output must keep the larger version's signature, which must verify over the larger multiset. Distinct non-trivial = distinct (first data, second data, victim)".into(),
        assumptions: vec![
            "result multisets are read from the two data with the harness's decoder (trace states resolved through the stores to the tetraplet's peer)".into(),
            "the enumeration is complete for the subsets of each generated fork point; fork points themselves are sampled".into(),
        ],
    }
}

fn nest(parts: &[String], kw: &str) -> String {
    match parts.len() {
        0 => "(null)".into(),
        1 => parts[0].clone(),
        _ => format!("({kw} {} {})", parts[0], nest(&parts[1..], kw)),
    }
}
