//! C16 (and the shared machinery of C17): distributed execution agrees with the sequential
//! reading of the script. Every call request any peer issues in any run of a history must be a
//! call of the reference evaluation (`oracle::seqsem`): same peer, service, function, arguments,
//! no reference call matched more often than the reading makes it.
use super::honest::*;
use crate::invoke::CallRequest;
use crate::oracle::seqsem::{self, Eval, RefCall};
use crate::report::*;
use crate::rng::fnv;
use serde_json::{json, Value};
use std::collections::BTreeMap;

pub struct Reference {
    pub calls: Vec<RefCall>,
    pub caught_errors: usize,
}

pub fn reference(c: &Case, st: &mut Stats) -> Option<Reference> {
    let ins = c.world.script.as_ref()?;
    let ids = c.world.peer_ids();
    let mut ev = Eval::new(&ids, &ids[0], 1_700_000_000, 30_000, c.world.max_arr);
    ev.run(ins);
    if let Some(why) = &ev.out_of_fragment {
        st.inc("scripts_outside_the_fragment", 1);
        st.label("outside_fragment_reasons", why.split(':').next().unwrap_or(why));
        return None;
    }
    st.inc("reference_evaluations", 1);
    st.inc("reference_calls", ev.calls.len() as u64);
    st.inc("reference_caught_failures", ev.caught_errors as u64);
    if ev.never_reached > 0 {
        st.inc("scripts_reaching_never", 1);
    }
    Some(Reference { calls: ev.calls, caught_errors: ev.caught_errors })
}

pub fn key(peer: &str, service: &str, function: &str, args: &[Value]) -> String {
    format!("{peer}|{service}|{function}|{}", serde_json::to_string(args).unwrap_or_default())
}

/// Match every request of the history against the reference; calls `on_match` for every matched
/// (request, candidates) pair; returns the number of requests.
pub fn match_requests(c: &Case, r: &Reference, case: u64, st: &mut Stats, judge_calls: bool, mut on_match: impl FnMut(&CallRequest, &[&RefCall], usize, &mut Stats)) {
    let mut by_key: BTreeMap<String, Vec<&RefCall>> = BTreeMap::new();
    for rc in &r.calls {
        by_key.entry(key(&rc.peer, &rc.service, &rc.function, &rc.args)).or_default().push(rc);
    }
    let mut used: BTreeMap<String, usize> = BTreeMap::new();
    let w = &c.world;
    for s in &c.history.steps {
        let Ok(reqs) = &s.out.requests else { continue };
        for (id, q) in reqs {
            st.inc("requests_checked", 1);
            let k = key(&w.peers[s.peer].id, &q.service, &q.function, &q.args);
            match by_key.get(&k) {
                Some(cands) => {
                    let n = used.entry(k.clone()).or_default();
                    *n += 1;
                    if *n > cands.len() && judge_calls {
                        st.violation("C16", "call-made-more-often-than-the-sequential-reading", &format!("step {}: {} issued {}({}) for the {}. time; the sequential reading makes it {} time(s)", s.idx, w.peers[s.peer].name, q.function, crate::proj::trunc(&serde_json::to_string(&q.args).unwrap_or_default(), 100), n, cands.len()), case, json!({"step": s.idx, "request": id, "history": history_sample(c, 40)}));
                    }
                    on_match(q, cands, s.idx, st);
                }
                None => {
                    if !judge_calls {
                        continue;
                    }
                    let same_fn: Vec<&RefCall> = r.calls.iter().filter(|rc| rc.function == q.function).collect();
                    let (sig, what) = if same_fn.is_empty() {
                        ("call-not-reached-by-the-sequential-reading", format!("the sequential reading never calls {}", q.function))
                    } else if same_fn.iter().any(|rc| rc.args == q.args && rc.service == q.service) {
                        ("call-at-another-peer", format!("the sequential reading makes this call at {}", w.peer_name(&same_fn[0].peer)))
                    } else if same_fn.iter().any(|rc| rc.peer == w.peers[s.peer].id && rc.args == q.args) {
                        ("call-with-another-service-id", format!("the sequential reading uses service {:?}", same_fn[0].service))
                    } else {
                        ("call-with-other-arguments", format!("the sequential reading calls it with {}", crate::proj::trunc(&serde_json::to_string(&same_fn.iter().map(|rc| &rc.args).collect::<Vec<_>>()).unwrap_or_default(), 300)))
                    };
                    st.violation("C16", sig, &format!("step {}: {} issued {}:{}({}) but {}", s.idx, w.peers[s.peer].name, q.service, q.function, crate::proj::trunc(&serde_json::to_string(&q.args).unwrap_or_default(), 200), what), case, json!({"step": s.idx, "request": id, "history": history_sample(c, 40)}));
                }
            }
        }
    }
    // progress statistic (not part of the verdict): how much of the reading was in fact executed
    if c.history.quiescent {
        let issued: usize = used.values().sum();
        st.inc("quiescent_histories", 1);
        st.inc("reference_calls_in_quiescent_histories", r.calls.len() as u64);
        st.inc("reference_calls_issued_in_quiescent_histories", issued.min(r.calls.len()) as u64);
    }
}

pub fn run(cfg: &Cfg) -> Report {
    let n = cfg.scale(3000, 60_000);
    let stats = run_honest(cfg, 16, n, &[Frag::SeqStrict], |c, case, _rng, st| {
        let Some(r) = reference(c, st) else { return };
        st.inc("histories_judged", 1);
        if r.caught_errors > 0 {
            st.inc("histories_with_caught_failures", 1);
        }
        let mut matched = 0u64;
        match_requests(c, &r, case, st, true, |_, _, _, _| matched += 1);
        st.inc("requests_matched", matched);
        if matched >= 2 {
            st.seen("judged_histories", fnv(c.world.air.as_bytes()) ^ c.history.decisions_hash());
        }
    });
    Report {
        prop: "C16",
        level: "exploration",
        stats,
        evaluations_key: "requests_checked",
        nontrivial_key: "judged_histories",
        rule: "generated scripts of the C16 fragment (calls with literal, init-peer, scalar and lens-selected targets, seq, par, xor, match/mismatch, fail, null, never, scalar ap, lenses incl. scalar accessors, new on scalars, scalar folds with next in seq and par position and last instructions; whatever can fail sits under an xor with no par in between) run as multi-peer histories under random schedules with duplication and late/batched results; an independent sequential evaluator gives the calls of the sequential reading; every request of every run must be one of them, with multiplicity. Distinct non-trivial = distinct (script, schedule) pairs in which at least two requests were matched; scripts whose evaluation leaves the fragment are counted and not judged".into(),
        assumptions: vec![
            "the reference evaluator (oracle/seqsem.rs, written from docs/AIR.md and docs/fold.md) and the deterministic service model are the specification of the sequential reading".into(),
            "inclusion only: a reference call that no peer issues (waiting forever on a join) is not a violation; the share issued at quiescence is reported as a statistic".into(),
        ],
    }
}
