//! Error-code table. Variant order is read from the repository's enum sources at build time
//! (`include_str!`), so the table follows reordering; it is cross-checked at start-up against
//! the codes of variants that can be constructed through the public API.
use air::ToErrorCode;
use std::collections::BTreeMap;
use std::sync::OnceLock;

const PREP_SRC: &str = include_str!("/repo/air/src/preparation_step/errors.rs");
const CATCH_SRC: &str = include_str!("/repo/air/src/execution_step/errors/catchable_errors.rs");
const UNCATCH_SRC: &str = include_str!("/repo/air/src/execution_step/errors/uncatchable_errors.rs");

fn variants(src: &str, enum_name: &str) -> Vec<String> {
    let start = match src.find(&format!("pub enum {enum_name} {{")) {
        Some(s) => s,
        None => return vec![],
    };
    let mut out = vec![];
    let mut depth = 0i32;
    for line in src[start..].lines() {
        let t = line.trim_end();
        if depth == 1 && t.starts_with("    ") && !t.starts_with("     ") {
            let name: String = t.trim_start().chars().take_while(|c| c.is_alphanumeric() || *c == '_').collect();
            if !name.is_empty() && name.chars().next().unwrap().is_ascii_uppercase() {
                out.push(name);
            }
        }
        // track braces/parens nesting (attributes and doc comments may contain braces in strings; count only outside quotes roughly)
        let mut in_str = false;
        let mut prev = ' ';
        for c in t.chars() {
            if c == '"' && prev != '\\' {
                in_str = !in_str;
            }
            if !in_str {
                match c {
                    '{' | '(' | '[' => depth += 1,
                    '}' | ')' | ']' => depth -= 1,
                    _ => {}
                }
            }
            prev = c;
        }
        if depth == 0 && t.contains('}') {
            break;
        }
    }
    out
}

pub struct ErrTable {
    pub by_name: BTreeMap<String, i64>,
    pub by_code: BTreeMap<i64, String>,
}

impl ErrTable {
    pub fn code(&self, name: &str) -> i64 {
        *self.by_name.get(name).unwrap_or_else(|| panic!("harness: unknown error variant {name}"))
    }
    pub fn name(&self, code: i64) -> String {
        self.by_code.get(&code).cloned().unwrap_or_else(|| format!("code{code}"))
    }
}

pub fn table() -> &'static ErrTable {
    static T: OnceLock<ErrTable> = OnceLock::new();
    T.get_or_init(|| {
        let mut by_name = BTreeMap::new();
        let mut by_code = BTreeMap::new();
        for (src, en, base, pfx) in [(PREP_SRC, "PreparationError", 1i64, "Prep"), (CATCH_SRC, "CatchableError", 10000, "Catch"), (UNCATCH_SRC, "UncatchableError", 20000, "Uncatch")] {
            for (i, v) in variants(src, en).into_iter().enumerate() {
                by_name.insert(format!("{pfx}::{v}"), base + i as i64);
                by_code.insert(base + i as i64, format!("{pfx}::{v}"));
            }
        }
        by_name.insert("Farewell::UnprocessedCallResult".into(), 30000);
        by_code.insert(30000, "Farewell::UnprocessedCallResult".into());
        let t = ErrTable { by_name, by_code };
        // anchors: variants constructible through the public API
        let anchors: Vec<(&str, i64)> = vec![
            ("Prep::AIRParseError", air::PreparationError::AIRParseError(String::new()).to_error_code()),
            ("Catch::MatchValuesNotEqual", air::CatchableError::MatchValuesNotEqual.to_error_code()),
            ("Catch::MismatchValuesEqual", air::CatchableError::MismatchValuesEqual.to_error_code()),
            ("Catch::VariableNotFound", air::CatchableError::VariableNotFound(String::new()).to_error_code()),
            ("Catch::VariableWasNotInitializedAfterNew", air::CatchableError::VariableWasNotInitializedAfterNew(String::new()).to_error_code()),
            ("Uncatch::FoldStateNotFound", air::UncatchableError::FoldStateNotFound(String::new()).to_error_code()),
            ("Uncatch::IterableShadowing", air::UncatchableError::IterableShadowing(String::new()).to_error_code()),
            ("Uncatch::ShadowingIsNotAllowed", air::UncatchableError::ShadowingIsNotAllowed(String::new()).to_error_code()),
            ("Uncatch::StreamSizeLimitExceeded", air::UncatchableError::StreamSizeLimitExceeded.to_error_code()),
        ];
        for (n, c) in anchors {
            assert_eq!(t.code(n), c, "harness error-code table disagrees with ToErrorCode for {n}");
        }
        t
    })
}

/// Codes that mean "the data is inconsistent" -- must never appear when all peers are honest.
pub fn consistency_set() -> Vec<i64> {
    let t = table();
    [
        "Prep::DataDeFailed",
        "Prep::EnvelopeDeFailed",
        "Prep::EnvelopeDeFailedWithVersions",
        "Prep::CidStoreVerificationError",
        "Prep::DataSignatureCheckError",
        "Prep::UnsupportedInterpreterVersion",
        "Prep::CallResultsDeFailed",
        "Uncatch::TraceError",
        "Uncatch::GenerationCompactificationError",
        "Uncatch::IntConversionError",
        "Uncatch::CallResultNotCorrespondToInstr",
        "Uncatch::ScalarsStateCorrupted",
        "Uncatch::CidError",
        "Uncatch::ValueForCidNotFound",
        "Uncatch::StreamDontHaveSuchGeneration",
        "Uncatch::MalformedCallServiceFailed",
        "Uncatch::InstructionParametersMismatch",
        "Uncatch::SigningError",
        "Uncatch::FoldStateNotFound",
        "Uncatch::MultipleIterableValues",
    ]
    .iter()
    .map(|n| t.code(n))
    .collect()
}
