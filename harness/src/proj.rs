//! JSON projections of interpreter data: monitors work on plain `serde_json::Value`s obtained
//! through the public serde implementations of `InterpreterData`, so they do not depend on the
//! repository's accessor code.
use air_interpreter_data::{InterpreterData, InterpreterDataEnvelope};
use serde_json::{json, Value};
use std::borrow::Cow;

#[derive(Clone, Debug)]
pub struct DataView {
    pub data_version: String,
    pub interpreter_version: String,
    /// `InterpreterData` as JSON: {trace, lcid, cid_info{..}, signatures{..}}
    pub data: Value,
}

pub fn decode(bytes: &[u8]) -> Result<DataView, String> {
    if bytes.is_empty() {
        return Ok(DataView {
            data_version: String::new(),
            interpreter_version: String::new(),
            data: json!({"trace": [], "lcid": 0,
                "cid_info": {"value_store":{}, "tetraplet_store":{}, "canon_element_store":{}, "canon_result_store":{}, "service_result_store":{}},
                "signatures": {}}),
        });
    }
    let env = InterpreterDataEnvelope::try_from_slice(bytes).map_err(|e| format!("envelope: {e}"))?;
    let inner = InterpreterData::try_from_slice(&env.inner_data).map_err(|e| format!("inner: {e}"))?;
    let data = serde_json::to_value(&inner).map_err(|e| format!("to_json: {e}"))?;
    Ok(DataView {
        data_version: env.versions.data_version.to_string(),
        interpreter_version: env.versions.interpreter_version.to_string(),
        data,
    })
}

pub fn encode_with_versions(data: &Value, data_version: &str, interpreter_version: &str) -> Result<Vec<u8>, String> {
    let inner: InterpreterData = serde_json::from_value(data.clone()).map_err(|e| format!("from_json: {e}"))?;
    let inner_bytes = inner.serialize().map_err(|e| format!("rkyv: {e}"))?;
    let env = InterpreterDataEnvelope {
        versions: air_interpreter_data::Versions {
            data_version: semver::Version::parse(data_version).map_err(|e| e.to_string())?,
            interpreter_version: semver::Version::parse(interpreter_version).map_err(|e| e.to_string())?,
        },
        inner_data: Cow::Owned(inner_bytes),
    };
    env.serialize().map_err(|e| format!("envelope ser: {e}"))
}

pub fn encode(view: &DataView) -> Result<Vec<u8>, String> {
    let dv = if view.data_version.is_empty() { air_interpreter_data::data_version().to_string() } else { view.data_version.clone() };
    let iv = if view.interpreter_version.is_empty() { air::interpreter_version().to_string() } else { view.interpreter_version.clone() };
    encode_with_versions(&view.data, &dv, &iv)
}

/// Re-wrap raw inner bytes in an envelope (for C21/C27: garbage inner data with readable versions).
pub fn wrap_inner(inner: &[u8], data_version: &str, interpreter_version: &str) -> Result<Vec<u8>, String> {
    let env = InterpreterDataEnvelope {
        versions: air_interpreter_data::Versions {
            data_version: semver::Version::parse(data_version).map_err(|e| e.to_string())?,
            interpreter_version: semver::Version::parse(interpreter_version).map_err(|e| e.to_string())?,
        },
        inner_data: Cow::Borrowed(inner),
    };
    env.serialize().map_err(|e| format!("envelope ser: {e}"))
}

pub fn inner_bytes(bytes: &[u8]) -> Result<Vec<u8>, String> {
    let env = InterpreterDataEnvelope::try_from_slice(bytes).map_err(|e| format!("envelope: {e}"))?;
    Ok(env.inner_data.to_vec())
}

// ---------- trace helpers over the JSON projection ----------

pub fn trace(data: &Value) -> &Vec<Value> {
    static EMPTY: Vec<Value> = Vec::new();
    data.get("trace").and_then(|t| t.as_array()).unwrap_or(&EMPTY)
}

pub fn lcid(data: &Value) -> u64 {
    data.get("lcid").and_then(|v| v.as_u64()).unwrap_or(0)
}

pub fn store<'a>(data: &'a Value, name: &str) -> &'a serde_json::Map<String, Value> {
    static EMPTY: once_empty::Empty = once_empty::Empty::new();
    data.get("cid_info").and_then(|c| c.get(name)).and_then(|s| s.as_object()).unwrap_or(EMPTY.get())
}

mod once_empty {
    use std::sync::OnceLock;
    pub struct Empty(OnceLock<serde_json::Map<String, serde_json::Value>>);
    impl Empty {
        pub const fn new() -> Self {
            Empty(OnceLock::new())
        }
        pub fn get(&self) -> &serde_json::Map<String, serde_json::Value> {
            self.0.get_or_init(serde_json::Map::new)
        }
    }
}

/// A decoded view of one trace state, resolved through the CID stores.
#[derive(Clone, Debug, PartialEq)]
pub enum St {
    Par(u64, u64),
    /// call sent_by(peer, Option<call id>)
    CallSent(String, Option<u64>),
    /// executed call: kind (scalar/stream/unused), service-result cid (or value cid for unused), generation
    CallExec { kind: &'static str, cid: String, generation: Option<u64> },
    CallFailed(String),
    Fold(Vec<(u64, Vec<(u64, u64)>)>),
    Ap(Vec<u64>),
    CanonSent(String),
    CanonExec(String),
    Unknown,
}

pub fn st(v: &Value) -> St {
    if let Some(p) = v.get("par").and_then(|p| p.as_array()) {
        return St::Par(p.first().and_then(|x| x.as_u64()).unwrap_or(0), p.get(1).and_then(|x| x.as_u64()).unwrap_or(0));
    }
    if let Some(c) = v.get("call") {
        if let Some(s) = c.get("sent_by") {
            if let Some(p) = s.get("PeerId").and_then(|x| x.as_str()) {
                return St::CallSent(p.to_string(), None);
            }
            if let Some(pc) = s.get("PeerIdWithCallId") {
                return St::CallSent(
                    pc.get("peer_id").and_then(|x| x.as_str()).unwrap_or("").to_string(),
                    pc.get("call_id").and_then(|x| x.as_u64()),
                );
            }
            return St::Unknown;
        }
        if let Some(e) = c.get("executed") {
            if let Some(cid) = e.get("scalar").and_then(|x| x.as_str()) {
                return St::CallExec { kind: "scalar", cid: cid.to_string(), generation: None };
            }
            if let Some(s) = e.get("stream") {
                return St::CallExec {
                    kind: "stream",
                    cid: s.get("cid").and_then(|x| x.as_str()).unwrap_or("").to_string(),
                    generation: s.get("generation").and_then(|x| x.as_u64()),
                };
            }
            if let Some(cid) = e.get("unused").and_then(|x| x.as_str()) {
                return St::CallExec { kind: "unused", cid: cid.to_string(), generation: None };
            }
            return St::Unknown;
        }
        if let Some(f) = c.get("failed").and_then(|x| x.as_str()) {
            return St::CallFailed(f.to_string());
        }
        return St::Unknown;
    }
    if let Some(f) = v.get("fold") {
        let mut lore = vec![];
        for e in f.get("lore").and_then(|l| l.as_array()).map(|a| a.as_slice()).unwrap_or(&[]) {
            let pos = e.get("pos").and_then(|x| x.as_u64()).unwrap_or(u64::MAX);
            let desc = e
                .get("desc")
                .and_then(|d| d.as_array())
                .map(|a| {
                    a.iter()
                        .map(|d| (d.get("pos").and_then(|x| x.as_u64()).unwrap_or(u64::MAX), d.get("len").and_then(|x| x.as_u64()).unwrap_or(u64::MAX)))
                        .collect()
                })
                .unwrap_or_default();
            lore.push((pos, desc));
        }
        return St::Fold(lore);
    }
    if let Some(a) = v.get("ap") {
        return St::Ap(a.get("gens").and_then(|g| g.as_array()).map(|g| g.iter().filter_map(|x| x.as_u64()).collect()).unwrap_or_default());
    }
    if let Some(c) = v.get("canon") {
        if let Some(p) = c.get("sent_by").and_then(|x| x.as_str()) {
            return St::CanonSent(p.to_string());
        }
        if let Some(cid) = c.get("executed").and_then(|x| x.as_str()) {
            return St::CanonExec(cid.to_string());
        }
    }
    St::Unknown
}

pub fn states(data: &Value) -> Vec<St> {
    trace(data).iter().map(st).collect()
}

/// Resolved service result: (value text, tetraplet json, argument hash)
pub fn service_result<'a>(data: &'a Value, cid: &str) -> Option<(&'a str, &'a Value, &'a str)> {
    let agg = store(data, "service_result_store").get(cid)?;
    let vcid = agg.get("value_cid")?.as_str()?;
    let tcid = agg.get("tetraplet_cid")?.as_str()?;
    let ah = agg.get("argument_hash")?.as_str()?;
    let v = store(data, "value_store").get(vcid)?.as_str()?;
    let t = store(data, "tetraplet_store").get(tcid)?;
    Some((v, t, ah))
}

/// Canon result: (tetraplet json, list of (value text, element tetraplet, provenance json))
pub fn canon_result<'a>(data: &'a Value, cid: &str) -> Option<(&'a Value, Vec<(&'a str, &'a Value, &'a Value)>)> {
    let agg = store(data, "canon_result_store").get(cid)?;
    let t = store(data, "tetraplet_store").get(agg.get("tetraplet")?.as_str()?)?;
    let mut out = vec![];
    for e in agg.get("values")?.as_array()? {
        let el = store(data, "canon_element_store").get(e.as_str()?)?;
        let v = store(data, "value_store").get(el.get("value")?.as_str()?)?.as_str()?;
        let et = store(data, "tetraplet_store").get(el.get("tetraplet")?.as_str()?)?;
        out.push((v, et, el.get("provenance")?));
    }
    Some((t, out))
}

pub fn short(cid: &str) -> &str {
    if cid.len() > 8 {
        &cid[cid.len() - 8..]
    } else {
        cid
    }
}

/// Compact human-readable rendering of a trace (for replay files and evidence samples).
pub fn render_trace(data: &Value) -> Vec<String> {
    states(data)
        .iter()
        .enumerate()
        .map(|(i, s)| {
            let d = match s {
                St::Par(l, r) => format!("par[{l},{r}]"),
                St::CallSent(p, id) => format!("sent_by({},{:?})", short(p), id),
                St::CallExec { kind, cid, generation } => {
                    let val = if *kind == "unused" { None } else { service_result(data, cid).map(|x| x.0.to_string()) };
                    format!("exec:{kind}({}){}{}", short(cid), generation.map(|g| format!("@g{g}")).unwrap_or_default(), val.map(|v| format!("={}", trunc(&v, 40))).unwrap_or_default())
                }
                St::CallFailed(c) => format!("failed({})", short(c)),
                St::Fold(l) => format!("fold{:?}", l),
                St::Ap(g) => format!("ap{:?}", g),
                St::CanonSent(p) => format!("canon_sent({})", short(p)),
                St::CanonExec(c) => format!("canon({})", short(c)),
                St::Unknown => "??".to_string(),
            };
            format!("{i}:{d}")
        })
        .collect()
}

pub fn trunc(s: &str, n: usize) -> String {
    if s.len() <= n {
        s.to_string()
    } else {
        let mut e = n;
        while !s.is_char_boundary(e) {
            e -= 1;
        }
        format!("{}…", &s[..e])
    }
}
