//! Structural identity of trace states: a key that names the script position (and fold iteration,
//! identified by the value visited) a state belongs to, so that states of different peers' traces
//! can be put in correspondence without looking at the script. Two honest traces of one particle
//! give the same key to the state of the same instruction instance.
use crate::proj::St;

#[derive(Clone, Debug)]
struct Range {
    begin: usize,
    end: usize,
    /// key prefix of the range: fold key + iteration identity + before/after
    prefix: String,
}

/// one key per trace position (empty string if the trace is malformed around that position)
pub fn keys(t: &[St]) -> Vec<String> {
    let mut out = vec![String::new(); t.len()];
    let mut w = W { t, out: &mut out, guard: 0 };
    w.walk_range(0, t.len(), "");
    out
}

struct W<'a> {
    t: &'a [St],
    out: &'a mut Vec<String>,
    guard: usize,
}

impl<'a> W<'a> {
    /// walk [from, to) as a forest of elements; positions beyond `to` are left to other ranges
    fn walk_range(&mut self, from: usize, to: usize, prefix: &str) {
        self.guard += 1;
        if self.guard > 200_000 {
            return;
        }
        let to = to.min(self.t.len());
        let mut pos = from;
        let mut ordinal = 0;
        while pos < to {
            let key = format!("{prefix}/{ordinal}");
            if self.out[pos].is_empty() {
                self.out[pos] = key.clone();
            }
            ordinal += 1;
            match &self.t[pos] {
                St::Par(l, r) => {
                    let lend = (pos + 1).saturating_add(*l as usize);
                    let rend = lend.saturating_add(*r as usize);
                    self.walk_range(pos + 1, lend.min(to), &format!("{key}L"));
                    self.walk_range(lend.min(to), rend.min(to), &format!("{key}R"));
                    pos = rend.max(pos + 1);
                }
                St::Fold(lore) => {
                    let mut block_end = pos + 1;
                    let mut ranges: Vec<Range> = vec![];
                    let mut seen_values: std::collections::BTreeMap<String, usize> = Default::default();
                    for (vpos, desc) in lore {
                        let vkey = self.out.get(*vpos as usize).cloned().unwrap_or_default();
                        // the same value key can only repeat in a malformed trace; disambiguate anyway
                        let n = seen_values.entry(vkey.clone()).or_insert(0);
                        *n += 1;
                        let ident = if *n > 1 { format!("{vkey}#{n}") } else { vkey };
                        for (which, d) in desc.iter().enumerate().take(2) {
                            let (b, len) = (d.0 as usize, d.1 as usize);
                            if len == 0 {
                                continue;
                            }
                            let e = b.saturating_add(len);
                            block_end = block_end.max(e);
                            ranges.push(Range { begin: b, end: e, prefix: format!("{key}[{ident}]{}", if which == 0 { "b" } else { "a" }) });
                        }
                    }
                    for r in ranges {
                        if r.begin > pos && r.begin < self.t.len() {
                            self.walk_range(r.begin, r.end, &r.prefix);
                        }
                    }
                    pos = block_end.max(pos + 1);
                }
                _ => pos += 1,
            }
        }
    }
}
