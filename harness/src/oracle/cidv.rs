//! Independent content-id computation: CIDv1, JSON codec (0x0200), BLAKE3-256 (0x1e), base32 lower.
use sha2::Digest;

const B32: &[u8; 32] = b"abcdefghijklmnopqrstuvwxyz234567";

pub fn base32_lower(data: &[u8]) -> String {
    let mut out = String::new();
    let mut buf: u32 = 0;
    let mut bits = 0;
    for b in data {
        buf = (buf << 8) | *b as u32;
        bits += 8;
        while bits >= 5 {
            out.push(B32[((buf >> (bits - 5)) & 31) as usize] as char);
            bits -= 5;
        }
    }
    if bits > 0 {
        out.push(B32[((buf << (5 - bits)) & 31) as usize] as char);
    }
    out
}

pub fn base32_lower_decode(s: &str) -> Option<Vec<u8>> {
    let mut out = vec![];
    let mut buf: u32 = 0;
    let mut bits = 0;
    for c in s.bytes() {
        let v = B32.iter().position(|x| *x == c)? as u32;
        buf = (buf << 5) | v;
        bits += 5;
        if bits >= 8 {
            out.push(((buf >> (bits - 8)) & 0xff) as u8);
            bits -= 8;
        }
    }
    Some(out)
}

pub fn cid_from_digest(hash_code: u64, digest: &[u8]) -> String {
    let mut bytes = vec![0x01u8];
    varint(0x0200, &mut bytes);
    varint(hash_code, &mut bytes);
    varint(digest.len() as u64, &mut bytes);
    bytes.extend_from_slice(digest);
    format!("b{}", base32_lower(&bytes))
}

pub fn varint(mut v: u64, out: &mut Vec<u8>) {
    loop {
        let b = (v & 0x7f) as u8;
        v >>= 7;
        if v == 0 {
            out.push(b);
            break;
        }
        out.push(b | 0x80);
    }
}

pub fn blake3_256(data: &[u8]) -> [u8; 32] {
    *fluence_blake3::hash(data).as_bytes()
}

pub fn sha2_256(data: &[u8]) -> [u8; 32] {
    sha2::Sha256::digest(data).into()
}

/// The id the interpreter is expected to give to these canonical bytes.
pub fn cid_of_bytes(data: &[u8]) -> String {
    cid_from_digest(0x1e, &blake3_256(data))
}

/// Parsed view of a CID string (only what the verification property talks about).
#[derive(Debug, Clone, PartialEq)]
pub struct ParsedCid {
    pub version: u64,
    pub codec: u64,
    pub hash_code: u64,
    pub digest: Vec<u8>,
}

fn read_varint(b: &[u8], pos: &mut usize) -> Option<u64> {
    let mut v: u64 = 0;
    let mut shift = 0;
    loop {
        let x = *b.get(*pos)?;
        *pos += 1;
        v |= ((x & 0x7f) as u64) << shift;
        if x & 0x80 == 0 {
            return Some(v);
        }
        shift += 7;
        if shift > 63 {
            return None;
        }
    }
}

/// Decode a base32-lower ('b' multibase) CIDv1 string.
pub fn parse_b32_cid(s: &str) -> Option<ParsedCid> {
    let rest = s.strip_prefix('b')?;
    let bytes = base32_lower_decode(rest)?;
    let mut pos = 0;
    let version = read_varint(&bytes, &mut pos)?;
    let codec = read_varint(&bytes, &mut pos)?;
    let hash_code = read_varint(&bytes, &mut pos)?;
    let len = read_varint(&bytes, &mut pos)? as usize;
    let digest = bytes.get(pos..pos + len)?.to_vec();
    if pos + len != bytes.len() {
        return None;
    }
    Some(ParsedCid { version, codec, hash_code, digest })
}
