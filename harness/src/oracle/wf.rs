//! Trace well-formedness (C10), written from the trace format description: par sizes cover the
//! following entries exactly, nested entries stay inside their parent's range, fold lore ranges
//! tile the fold's block, iterations are properly nested, every iteration points to an earlier
//! stream value entry, and no generation is the internal placeholder.
use crate::proj::St;

pub const GENERATION_STUB: u64 = 0xCAFEBABE;

#[derive(Debug, Default, Clone)]
pub struct WfStats {
    pub pars: u64,
    pub folds: u64,
    pub iterations: u64,
    pub max_depth: u64,
    pub spanning_elements: u64,
}

struct Walk<'a> {
    t: &'a [St],
    stats: WfStats,
}

/// returns Err(description) on the first structural defect
pub fn check(t: &[St]) -> Result<WfStats, String> {
    let mut w = Walk { t, stats: WfStats::default() };
    w.forest(0, t.len(), 0)?;
    for (i, s) in t.iter().enumerate() {
        match s {
            St::CallExec { kind: "stream", generation, .. } => match generation {
                Some(g) if *g == GENERATION_STUB => return Err(format!("stream value at {i} carries the placeholder generation")),
                None => return Err(format!("stream value at {i} has no generation")),
                _ => {}
            },
            St::Ap(g) => {
                if g.len() != 1 {
                    return Err(format!("ap at {i} carries {} generations", g.len()));
                }
                if g[0] == GENERATION_STUB {
                    return Err(format!("ap at {i} carries the placeholder generation"));
                }
            }
            St::Unknown => return Err(format!("state {i} has an unknown shape")),
            _ => {}
        }
    }
    Ok(w.stats)
}

impl<'a> Walk<'a> {
    /// walk the elements of [from, to); each element must end inside the range
    fn forest(&mut self, from: usize, to: usize, depth: u64) -> Result<Vec<(usize, usize)>, String> {
        self.stats.max_depth = self.stats.max_depth.max(depth);
        let mut pos = from;
        let mut compounds = vec![];
        while pos < to {
            let end = self.element(pos, to, depth, &mut compounds)?;
            pos = end;
        }
        Ok(compounds)
    }

    /// returns the end of the element starting at `pos`; `limit` is the end of the parent's range.
    /// `compounds` collects (start,end) of every par/fold met at any depth below, except inside
    /// nested fold blocks (those are judged against their own fold).
    fn element(&mut self, pos: usize, limit: usize, depth: u64, compounds: &mut Vec<(usize, usize)>) -> Result<usize, String> {
        match &self.t[pos] {
            St::Par(l, r) => {
                self.stats.pars += 1;
                let (l, r) = (*l as usize, *r as usize);
                let lend = pos.checked_add(1).and_then(|x| x.checked_add(l)).ok_or("par size overflow")?;
                let rend = lend.checked_add(r).ok_or("par size overflow")?;
                if rend > limit {
                    return Err(format!("par at {pos} with sizes ({l},{r}) reaches {rend}, beyond its parent's range ending at {limit}"));
                }
                let a = self.forest(pos + 1, lend, depth + 1).map_err(|e| format!("{e} (inside left of par at {pos})"))?;
                let b = self.forest(lend, rend, depth + 1).map_err(|e| format!("{e} (inside right of par at {pos})"))?;
                compounds.push((pos, rend));
                compounds.extend(a);
                compounds.extend(b);
                Ok(rend)
            }
            St::Fold(lore) => {
                self.stats.folds += 1;
                let block_start = pos + 1;
                let mut ranges: Vec<(usize, usize, usize, bool)> = vec![]; // begin, len, iteration, is_before
                for (k, (vpos, desc)) in lore.iter().enumerate() {
                    self.stats.iterations += 1;
                    if desc.len() != 2 {
                        return Err(format!("fold at {pos}: iteration {k} has {} range descriptors instead of 2", desc.len()));
                    }
                    let (bb, bl) = (desc[0].0 as usize, desc[0].1 as usize);
                    let (ab, al) = (desc[1].0 as usize, desc[1].1 as usize);
                    ranges.push((bb, bl, k, true));
                    ranges.push((ab, al, k, false));
                    let vp = *vpos as usize;
                    if vp >= bb {
                        return Err(format!("fold at {pos}: iteration {k} points to value position {vp}, not before its own begin {bb}"));
                    }
                    match self.t.get(vp) {
                        Some(St::Ap(_)) | Some(St::CallExec { kind: "stream", .. }) => {}
                        other => return Err(format!("fold at {pos}: iteration {k} points to position {vp} which is not a stream value entry ({other:?})")),
                    }
                    if bb + bl > ab && (bl > 0 && al > 0) {
                        return Err(format!("fold at {pos}: iteration {k} has its after-range before its before-range"));
                    }
                }
                // tiling
                let mut sorted = ranges.clone();
                sorted.sort_by_key(|r| (r.0, r.1));
                let mut cursor = block_start;
                for (b, l, k, is_before) in &sorted {
                    if *l == 0 {
                        continue;
                    }
                    if *b != cursor {
                        return Err(format!(
                            "fold at {pos}: {} range of iteration {k} begins at {b} but the previous range ends at {cursor} ({})",
                            if *is_before { "before" } else { "after" },
                            if *b > cursor { "gap" } else { "overlap" }
                        ));
                    }
                    cursor += l;
                }
                let block_end = cursor;
                if block_end > limit {
                    return Err(format!("fold at {pos}: its block ends at {block_end}, beyond its parent's range ending at {limit}"));
                }
                // zero-length ranges must still lie inside the block
                for (b, l, k, _) in &ranges {
                    if *l == 0 && (*b < block_start || *b > block_end) {
                        return Err(format!("fold at {pos}: empty range of iteration {k} lies at {b}, outside the block [{block_start},{block_end})"));
                    }
                }
                // extents and laminarity
                let n = lore.len();
                let ext: Vec<(usize, usize, usize, usize)> = (0..n)
                    .map(|k| {
                        let (bb, bl) = (lore[k].1[0].0 as usize, lore[k].1[0].1 as usize);
                        let (ab, al) = (lore[k].1[1].0 as usize, lore[k].1[1].1 as usize);
                        (bb, bb + bl, ab, ab + al)
                    })
                    .collect();
                for j in 0..n {
                    for k in 0..n {
                        if j == k {
                            continue;
                        }
                        let (jb, jbe, jab, je) = ext[j];
                        let (kb, _, _, ke) = ext[k];
                        if kb == ke || jb == je {
                            continue;
                        }
                        let disjoint = ke <= jb || je <= kb;
                        let k_in_j = kb >= jbe && ke <= jab;
                        let (kb2, kbe2, kab2, _) = ext[k];
                        let j_in_k = jb >= kbe2 && je <= kab2;
                        let _ = kb2;
                        if !(disjoint || k_in_j || j_in_k) {
                            return Err(format!("fold at {pos}: iterations {j} and {k} are neither disjoint nor properly nested"));
                        }
                    }
                }
                // walk the block as a forest; judge compound elements against the lore
                let inner = self.forest(block_start, block_end, depth + 1).map_err(|e| format!("{e} (inside fold at {pos})"))?;
                for (s, e) in inner {
                    // which range does s start in
                    for k in 0..n {
                        let (bb, bbe, ab, ae) = ext[k];
                        if s >= bb && s < bbe {
                            if e > ae.max(bbe) {
                                return Err(format!("fold at {pos}: element [{s},{e}) starts in the before-range of iteration {k} but ends beyond the iteration's extent ending at {}", ae.max(bbe)));
                            }
                            if e > bbe {
                                self.stats.spanning_elements += 1;
                            }
                        } else if s >= ab && s < ae {
                            if e > ae {
                                return Err(format!("fold at {pos}: element [{s},{e}) starts in the after-range of iteration {k} but ends beyond it at {ae}"));
                            }
                        }
                    }
                }
                compounds.push((pos, block_end));
                Ok(block_end)
            }
            _ => Ok(pos + 1),
        }
    }
}
