//! Independent verifier of interpreter data, written from the data format: recomputes every
//! store item's content id, checks referential closure, groups call/canon ids per peer and checks
//! each peer's ed25519 signature over borsh(sorted ids, salt). Works on the JSON projection.
use super::cidv::cid_of_bytes;
use crate::proj::{self, St};
use serde_json::Value;
use std::collections::BTreeMap;

fn jstr(s: &str) -> String {
    serde_json::to_string(s).unwrap()
}

/// canonical JSON text of a stored item, in the field order of the format
pub fn canonical_text(store: &str, item: &Value) -> Option<String> {
    let g = |k: &str| item.get(k).and_then(|v| v.as_str());
    match store {
        "tetraplet_store" => Some(format!(
            "{{\"peer_pk\":{},\"service_id\":{},\"function_name\":{},\"lens\":{}}}",
            jstr(g("peer_pk")?), jstr(g("service_id")?), jstr(g("function_name")?), jstr(g("lens")?)
        )),
        "service_result_store" => Some(format!(
            "{{\"value_cid\":{},\"argument_hash\":{},\"tetraplet_cid\":{}}}",
            jstr(g("value_cid")?), jstr(g("argument_hash")?), jstr(g("tetraplet_cid")?)
        )),
        "canon_element_store" => {
            let p = item.get("provenance")?;
            let ty = p.get("type")?.as_str()?;
            let prov = match ty {
                "literal" => "{\"type\":\"literal\"}".to_string(),
                "service_result" | "canon" => format!("{{\"type\":{},\"cid\":{}}}", jstr(ty), jstr(p.get("cid")?.as_str()?)),
                _ => return None,
            };
            Some(format!("{{\"value\":{},\"tetraplet\":{},\"provenance\":{}}}", jstr(g("value")?), jstr(g("tetraplet")?), prov))
        }
        "canon_result_store" => {
            let vals: Vec<String> = item.get("values")?.as_array()?.iter().map(|v| v.as_str().map(jstr)).collect::<Option<Vec<_>>>()?;
            Some(format!("{{\"tetraplet\":{},\"values\":[{}]}}", jstr(g("tetraplet")?), vals.join(",")))
        }
        _ => None,
    }
}

pub fn borsh_cids_salt(cids: &[String], salt: &str) -> Vec<u8> {
    let mut out = vec![];
    out.extend((cids.len() as u32).to_le_bytes());
    for c in cids {
        out.extend((c.len() as u32).to_le_bytes());
        out.extend(c.as_bytes());
    }
    out.extend((salt.len() as u32).to_le_bytes());
    out.extend(salt.as_bytes());
    out
}

/// peer id (base58 identity multihash) of a store key (base58 of [format byte, 32 key bytes])
pub fn peer_id_of_store_key(pk_b58: &str) -> Option<(String, [u8; 32])> {
    let raw = bs58::decode(pk_b58).into_vec().ok()?;
    if raw.len() != 33 || raw[0] != 0 {
        return None;
    }
    let key: [u8; 32] = raw[1..].try_into().ok()?;
    let mut mh = vec![0x00u8, 0x24, 0x08, 0x01, 0x12, 0x20];
    mh.extend(key);
    Some((bs58::encode(mh).into_string(), key))
}

#[derive(Debug, Default)]
pub struct Verified {
    /// per peer id: sorted list of call/canon result ids attributed to it
    pub per_peer: BTreeMap<String, Vec<String>>,
}

/// Full verification of decoded data for a particle. Err(reason) if anything does not hold.
pub fn verify(data: &Value, particle_id: &str) -> Result<Verified, String> {
    // 1. every stored item hashes to its id
    for (cid, v) in proj::store(data, "value_store") {
        let raw = v.as_str().ok_or_else(|| format!("value_store[{cid}] is not a string"))?;
        if cid_of_bytes(raw.as_bytes()) != *cid {
            return Err(format!("value_store item does not hash to its id {cid}"));
        }
        if serde_json::from_str::<Value>(raw).is_err() {
            return Err(format!("value_store item {cid} is not JSON"));
        }
    }
    for store in ["tetraplet_store", "service_result_store", "canon_element_store", "canon_result_store"] {
        for (cid, item) in proj::store(data, store) {
            let text = canonical_text(store, item).ok_or_else(|| format!("{store}[{cid}] malformed"))?;
            if cid_of_bytes(text.as_bytes()) != *cid {
                return Err(format!("{store} item does not hash to its id {cid}"));
            }
        }
    }
    // 2. referential closure between stores
    let has = |store: &str, cid: &str| proj::store(data, store).contains_key(cid);
    for (cid, item) in proj::store(data, "service_result_store") {
        let g = |k: &str| item.get(k).and_then(|v| v.as_str()).unwrap_or("");
        if !has("value_store", g("value_cid")) || !has("tetraplet_store", g("tetraplet_cid")) {
            return Err(format!("service result {cid} references a missing item"));
        }
    }
    for (cid, item) in proj::store(data, "canon_result_store") {
        if !has("tetraplet_store", item.get("tetraplet").and_then(|v| v.as_str()).unwrap_or("")) {
            return Err(format!("canon result {cid} references a missing tetraplet"));
        }
        for v in item.get("values").and_then(|v| v.as_array()).cloned().unwrap_or_default() {
            if !has("canon_element_store", v.as_str().unwrap_or("")) {
                return Err(format!("canon result {cid} references a missing element"));
            }
        }
    }
    for (cid, item) in proj::store(data, "canon_element_store") {
        let g = |k: &str| item.get(k).and_then(|v| v.as_str()).unwrap_or("");
        if !has("value_store", g("value")) || !has("tetraplet_store", g("tetraplet")) {
            return Err(format!("canon element {cid} references a missing item"));
        }
        let p = item.get("provenance").cloned().unwrap_or(Value::Null);
        let pc = p.get("cid").and_then(|v| v.as_str()).unwrap_or("");
        match p.get("type").and_then(|v| v.as_str()) {
            Some("literal") => {}
            Some("service_result") => {
                if !has("service_result_store", pc) {
                    return Err(format!("canon element {cid} references a missing service result"));
                }
            }
            Some("canon") => {
                if !has("canon_result_store", pc) {
                    return Err(format!("canon element {cid} references a missing canon result"));
                }
            }
            _ => return Err(format!("canon element {cid} has malformed provenance")),
        }
    }
    // 3. trace references; group per peer
    let mut per_peer: BTreeMap<String, Vec<String>> = BTreeMap::new();
    for (i, s) in proj::states(data).iter().enumerate() {
        match s {
            St::CallExec { kind, cid, .. } if *kind != "unused" => {
                let (_, t, _) = proj::service_result(data, cid).ok_or_else(|| format!("trace[{i}] references missing service result {cid}"))?;
                let peer = t.get("peer_pk").and_then(|v| v.as_str()).unwrap_or("").to_string();
                per_peer.entry(peer).or_default().push(cid.clone());
            }
            St::CallFailed(cid) => {
                let (_, t, _) = proj::service_result(data, cid).ok_or_else(|| format!("trace[{i}] references missing failed result {cid}"))?;
                let peer = t.get("peer_pk").and_then(|v| v.as_str()).unwrap_or("").to_string();
                per_peer.entry(peer).or_default().push(cid.clone());
            }
            St::CanonExec(cid) => {
                let (t, _) = proj::canon_result(data, cid).ok_or_else(|| format!("trace[{i}] references missing canon result {cid}"))?;
                let peer = t.get("peer_pk").and_then(|v| v.as_str()).unwrap_or("").to_string();
                per_peer.entry(peer).or_default().push(cid.clone());
            }
            St::Unknown => return Err(format!("trace[{i}] has an unknown shape")),
            _ => {}
        }
    }
    for v in per_peer.values_mut() {
        v.sort();
    }
    // 4. signatures: every peer with results has a valid signature over exactly its ids
    let sigs = data.get("signatures").and_then(|s| s.as_object()).cloned().unwrap_or_default();
    let mut by_peer: BTreeMap<String, ([u8; 32], String)> = BTreeMap::new();
    for (pk, sig) in &sigs {
        let (pid, key) = peer_id_of_store_key(pk).ok_or_else(|| format!("malformed public key {pk}"))?;
        by_peer.insert(pid, (key, sig.as_str().unwrap_or("").to_string()));
    }
    for (peer, cids) in &per_peer {
        let (key, sig) = by_peer.get(peer).ok_or_else(|| format!("no signature for peer {peer} which has {} results", cids.len()))?;
        check_sig(key, sig, cids, particle_id).map_err(|e| format!("signature of {peer}: {e}"))?;
    }
    // signatures of peers without results must verify over the empty set
    for (peer, (key, sig)) in &by_peer {
        if !per_peer.contains_key(peer) {
            check_sig(key, sig, &[], particle_id).map_err(|e| format!("signature of {peer} (no results): {e}"))?;
        }
    }
    Ok(Verified { per_peer })
}

pub fn check_sig(key: &[u8; 32], sig_b58: &str, cids: &[String], salt: &str) -> Result<(), String> {
    use ed25519_dalek::Verifier;
    let raw = bs58::decode(sig_b58).into_vec().map_err(|_| "signature is not base58".to_string())?;
    if raw.len() != 65 || raw[0] != 0 {
        return Err(format!("signature has unexpected length/format {}", raw.len()));
    }
    let sig = ed25519_dalek::Signature::from_slice(&raw[1..]).map_err(|e| e.to_string())?;
    let vk = ed25519_dalek::VerifyingKey::from_bytes(key).map_err(|e| e.to_string())?;
    vk.verify(&borsh_cids_salt(cids, salt), &sig).map_err(|_| "does not verify over this peer's result ids and the particle id".to_string())
}

/// Sign a list of ids the way a peer does (for the attacker re-signing its own results).
pub fn sign(signing: &ed25519_dalek::SigningKey, cids: &[String], salt: &str) -> String {
    use ed25519_dalek::Signer;
    let mut sorted = cids.to_vec();
    sorted.sort();
    let sig = signing.sign(&borsh_cids_salt(&sorted, salt));
    let mut raw = vec![0u8];
    raw.extend(sig.to_bytes());
    bs58::encode(raw).into_string()
}
