//! Sequential reference evaluator for the F-seq fragment of AIR (C16, C17), written from
//! docs/AIR.md and docs/fold.md against the harness's own syntax tree and the deterministic
//! service model -- it never calls the interpreter or its parser.
//!
//! Fragment: call, seq, par, xor, match/mismatch, fail, null, never, scalar ap, lenses, new on
//! scalars, folds over scalar arrays; every failing instruction is caught by an xor with no par in
//! between. Anything else (streams, canons, errors escaping through a par or to the top level)
//! makes the evaluation `out_of_fragment`, and the script is then not judged.
//!
//! The evaluator reads the script as ONE sequential program in which every call is answered at
//! once: it produces the multiset of calls that reading makes (peer, service, function, argument
//! values) and, for every argument, the provenance the security tetraplets must report.
use crate::ast::*;
use serde_json::Value;

/// (peer, service, function, lens accessors)
#[derive(Clone, Debug, PartialEq)]
pub struct Tet {
    pub peer: String,
    pub service: String,
    pub function: String,
    /// accessor sequence: "a" for a field, "[0]" for an index, "[name]" for an accessor taken from a
    /// scalar (with its resolved form kept alongside), "length" for the functor
    pub lens: Vec<Accessor>,
}

#[derive(Clone, Debug, PartialEq)]
pub struct Accessor {
    /// as written in the script (`a`, `[0]`, `[i]`, `length`)
    pub written: String,
    /// with scalar accessors replaced by their value (`[1]`, `k`)
    pub resolved: String,
}

#[derive(Clone, Debug)]
pub struct V {
    pub json: Value,
    pub tet: Tet,
}

#[derive(Clone, Debug)]
pub struct RefCall {
    pub peer: String,
    pub service: String,
    pub function: String,
    pub args: Vec<Value>,
    /// one provenance per argument (the fragment has no canon streams, so exactly one each)
    pub tets: Vec<Tet>,
    /// the service model's answer
    pub ret_code: i32,
}

#[derive(Debug)]
pub struct Catch(pub String);

enum Slot {
    Val(String, V),
    /// `new x`: x is undefined until defined again inside the scope
    Hidden(String),
}

struct FoldFrame {
    name: String,
    elems: Vec<V>,
    idx: usize,
    body: *const Ins,
    last: Option<*const Ins>,
}

pub struct Eval<'a> {
    pub peer_ids: &'a [String],
    pub init_peer: String,
    pub timestamp: u64,
    pub ttl: u32,
    pub max_arr: usize,
    pub calls: Vec<RefCall>,
    pub out_of_fragment: Option<String>,
    stack: Vec<Slot>,
    folds: Vec<FoldFrame>,
    complete: bool,
    steps: usize,
    pub caught_errors: usize,
    pub never_reached: usize,
}

type R = Result<(), Catch>;

impl<'a> Eval<'a> {
    pub fn new(peer_ids: &'a [String], init_peer: &str, timestamp: u64, ttl: u32, max_arr: usize) -> Self {
        Eval { peer_ids, init_peer: init_peer.to_string(), timestamp, ttl, max_arr, calls: vec![], out_of_fragment: None, stack: vec![], folds: vec![], complete: true, steps: 0, caught_errors: 0, never_reached: 0 }
    }

    /// Evaluate a whole script. Afterwards `calls` holds the sequential reading's calls unless
    /// `out_of_fragment` is set.
    pub fn run(&mut self, script: &Ins) {
        match self.eval(script) {
            Ok(()) => {}
            Err(Catch(m)) => self.leave(format!("a failure reaches the top level uncaught: {m}")),
        }
    }

    fn leave(&mut self, why: String) {
        if self.out_of_fragment.is_none() {
            self.out_of_fragment = Some(why);
        }
    }

    fn literal_tet(&self) -> Tet {
        Tet { peer: self.init_peer.clone(), service: String::new(), function: String::new(), lens: vec![] }
    }

    fn lookup(&self, name: &str) -> Option<&V> {
        for s in self.stack.iter().rev() {
            match s {
                Slot::Val(n, v) if n == name => return Some(v),
                Slot::Hidden(n) if n == name => return None,
                _ => {}
            }
        }
        None
    }

    fn iterator(&self, name: &str) -> Option<&V> {
        self.folds.iter().rev().find(|f| f.name == name).and_then(|f| f.elems.get(f.idx))
    }

    fn var(&mut self, name: &str) -> Result<V, Catch> {
        if name.starts_with('$') || name.starts_with('#') || name.starts_with('%') {
            self.leave(format!("stream or canon variable {name}"));
            return Err(Catch("out of fragment".into()));
        }
        if let Some(v) = self.iterator(name) {
            return Ok(v.clone());
        }
        match self.lookup(name) {
            Some(v) => Ok(v.clone()),
            None => {
                // in the sequential reading every variable of a well-scoped script is defined when
                // it is used, except behind a never or inside a par whose other branch defines it
                self.leave(format!("variable {name} is not defined in the sequential reading"));
                Err(Catch("out of fragment".into()))
            }
        }
    }

    fn apply_lens(&mut self, base: V, lens: &Lens) -> Result<V, Catch> {
        let mut cur = base.json;
        let mut tet = base.tet;
        match lens {
            Lens::Length => match &cur {
                Value::Array(a) => {
                    tet.lens.push(Accessor { written: "length".into(), resolved: "length".into() });
                    Ok(V { json: Value::from(a.len() as u64), tet })
                }
                _ => Err(Catch("length of a non-array".into())),
            },
            Lens::Path(p) => {
                for a in p {
                    let (written, key): (String, Result<usize, String>) = match a {
                        Acc::Idx(i) => (format!("[{i}]"), Ok(*i as usize)),
                        Acc::Field(f) => (f.clone(), Err(f.clone())),
                        Acc::ByScalar(n) => {
                            let s = self.var(n)?;
                            match &s.json {
                                Value::Number(x) if x.is_u64() && x.as_u64().unwrap() <= u32::MAX as u64 => (format!("[{n}]"), Ok(x.as_u64().unwrap() as usize)),
                                Value::String(k) => (format!("[{n}]"), Err(k.clone())),
                                _ => return Err(Catch(format!("accessor scalar {n} is neither an index nor a key"))),
                            }
                        }
                    };
                    let (next, resolved) = match key {
                        Ok(i) => match &cur {
                            Value::Array(arr) => (arr.get(i).cloned().ok_or_else(|| Catch(format!("index {i} out of range")))?, format!("[{i}]")),
                            _ => return Err(Catch(format!("index {i} into a non-array"))),
                        },
                        Err(k) => match &cur {
                            Value::Object(o) => (o.get(&k).cloned().ok_or_else(|| Catch(format!("no field {k}")))?, k.clone()),
                            _ => return Err(Catch(format!("field {k} of a non-object"))),
                        },
                    };
                    cur = next;
                    tet.lens.push(Accessor { written, resolved });
                }
                Ok(V { json: cur, tet })
            }
        }
    }

    fn val(&mut self, v: &Val) -> Result<V, Catch> {
        let lit = |j: Value, s: &Self| V { json: j, tet: s.literal_tet() };
        Ok(match v {
            Val::InitPeer => lit(Value::String(self.init_peer.clone()), self),
            Val::Timestamp => lit(Value::from(self.timestamp), self),
            Val::Ttl => lit(Value::from(self.ttl), self),
            Val::Lit(s) => lit(Value::String(s.clone()), self),
            Val::Int(i) => lit(Value::from(*i), self),
            Val::Float(f) => match f.parse::<f64>() {
                Ok(x) => lit(serde_json::Number::from_f64(x).map(Value::Number).unwrap_or(Value::Null), self),
                Err(_) => {
                    self.leave(format!("float literal {f}"));
                    return Err(Catch("out of fragment".into()));
                }
            },
            Val::Bool(b) => lit(Value::Bool(*b), self),
            Val::EmptyArr => lit(Value::Array(vec![]), self),
            Val::Var(n) => self.var(n)?,
            Val::VarLens(n, l) => {
                let b = self.var(n)?;
                self.apply_lens(b, l)?
            }
            Val::LastError(_) | Val::Error(_) => {
                self.leave("error values".into());
                return Err(Catch("out of fragment".into()));
            }
        })
    }

    fn string_part(&mut self, v: &Val, what: &str) -> Result<String, Catch> {
        let r = self.val(v)?;
        match r.json {
            Value::String(s) => Ok(s),
            other => Err(Catch(format!("{what} of a call is not a string: {other}"))),
        }
    }

    fn eval(&mut self, ins: &Ins) -> R {
        self.steps += 1;
        if self.steps > 200_000 || self.out_of_fragment.is_some() {
            self.leave("evaluation budget exceeded".into());
            return Ok(());
        }
        match ins {
            Ins::Null => Ok(()),
            Ins::Never => {
                self.complete = false;
                self.never_reached += 1;
                Ok(())
            }
            Ins::Seq(a, b) => {
                self.complete = true;
                self.eval(a)?;
                if self.complete {
                    self.eval(b)?;
                }
                Ok(())
            }
            Ins::Par(a, b) => {
                let mut sides = [false, false];
                for (i, side) in [a, b].into_iter().enumerate() {
                    // a branch that is just `next` does not count as complete by itself
                    self.complete = !matches!(**side, Ins::Next(_));
                    if let Err(Catch(m)) = self.eval(side) {
                        self.leave(format!("a failure escapes through a par: {m}"));
                        return Ok(());
                    }
                    sides[i] = self.complete;
                }
                self.complete = sides[0] || sides[1];
                Ok(())
            }
            Ins::Xor(a, b) => {
                self.complete = true;
                match self.eval(a) {
                    Err(Catch(_)) if self.out_of_fragment.is_none() => {
                        self.caught_errors += 1;
                        self.complete = true;
                        self.eval(b)
                    }
                    r => r,
                }
            }
            Ins::Match(x, y, body) | Ins::Mismatch(x, y, body) => {
                let (vx, vy) = (self.val(x)?, self.val(y)?);
                let equal = vx.json == vy.json;
                if equal == matches!(ins, Ins::Match(..)) {
                    self.eval(body)
                } else {
                    Err(Catch("compared values".into()))
                }
            }
            Ins::Fail(FailBody::Lit(c, m)) => Err(Catch(format!("fail {c} {m}"))),
            // failing again with the error that was just caught: a failure whatever the error object is
            Ins::Fail(FailBody::Val(Val::LastError(None))) | Ins::Fail(FailBody::Val(Val::Error(None))) => Err(Catch("rethrow".into())),
            Ins::Fail(FailBody::Val(v)) => {
                let r = self.val(v)?;
                Err(Catch(format!("fail {}", r.json)))
            }
            Ins::New(name, body) => {
                if name.starts_with('$') || name.starts_with('#') || name.starts_with('%') {
                    self.leave(format!("new {name}"));
                    return Ok(());
                }
                let mark = self.stack.len();
                self.stack.push(Slot::Hidden(name.clone()));
                let r = self.eval(body);
                self.stack.truncate(mark);
                r
            }
            Ins::Ap { arg, out } => {
                let v = self.val(arg)?;
                match out {
                    Out::Scalar(n) => {
                        self.stack.push(Slot::Val(n.clone(), v));
                        Ok(())
                    }
                    _ => {
                        self.leave("ap into a stream".into());
                        Ok(())
                    }
                }
            }
            Ins::ApMap { .. } | Ins::Canon { .. } => {
                self.leave(format!("{} instruction", ins.kind()));
                Ok(())
            }
            Ins::Call { peer, service, func, args, out } => {
                let p = self.string_part(peer, "peer id")?;
                let s = self.string_part(service, "service id")?;
                let f = self.string_part(func, "function name")?;
                let mut vals = vec![];
                for a in args {
                    vals.push(self.val(a)?);
                }
                let jargs: Vec<Value> = vals.iter().map(|v| v.json.clone()).collect();
                let (code, res) = crate::service::call_service(self.peer_ids, self.max_arr, &f, &jargs);
                self.calls.push(RefCall { peer: p.clone(), service: s.clone(), function: f.clone(), args: jargs, tets: vals.into_iter().map(|v| v.tet).collect(), ret_code: code });
                if code != 0 {
                    return Err(Catch(format!("service error {code}")));
                }
                let json: Value = match serde_json::from_str(&res) {
                    Ok(j) => j,
                    Err(_) => return Err(Catch("service result is not JSON".into())),
                };
                match out {
                    Out::None => {}
                    Out::Scalar(n) => self.stack.push(Slot::Val(n.clone(), V { json, tet: Tet { peer: p, service: s, function: f, lens: vec![] } })),
                    Out::Stream(_) => self.leave("call into a stream".into()),
                }
                Ok(())
            }
            Ins::Fold { iterable, it, body, last } => {
                let src = self.val(iterable)?;
                let arr = match &src.json {
                    Value::Array(a) => a.clone(),
                    _ => return Err(Catch("fold over a non-array".into())),
                };
                if arr.is_empty() {
                    return Ok(());
                }
                let elems: Vec<V> = arr
                    .into_iter()
                    .enumerate()
                    .map(|(i, e)| {
                        let mut tet = src.tet.clone();
                        tet.lens.push(Accessor { written: format!("[{i}]"), resolved: format!("[{i}]") });
                        V { json: e, tet }
                    })
                    .collect();
                self.folds.push(FoldFrame { name: it.clone(), elems, idx: 0, body: &**body as *const Ins, last: last.as_ref().map(|l| &**l as *const Ins) });
                let mark = self.stack.len();
                let r = self.eval(body);
                self.stack.truncate(mark);
                self.folds.pop();
                r
            }
            Ins::Next(name) => {
                let Some(fi) = self.folds.iter().rposition(|f| &f.name == name) else {
                    self.leave(format!("next {name} outside its fold"));
                    return Ok(());
                };
                let (idx, len, body, last) = {
                    let f = &self.folds[fi];
                    (f.idx, f.elems.len(), f.body, f.last)
                };
                if idx + 1 >= len {
                    if let Some(l) = last {
                        self.complete = true;
                        // SAFETY: the pointers refer into the script tree, which outlives the evaluation
                        return self.eval(unsafe { &*l });
                    }
                    return Ok(());
                }
                self.folds[fi].idx = idx + 1;
                let mark = self.stack.len();
                let r = self.eval(unsafe { &*body });
                self.stack.truncate(mark);
                self.folds[fi].idx = idx;
                r
            }
        }
    }
}

/// The accessor sequence of a lens string as the interpreter prints it (`.$.a.b.[0].$.e`): the `$`
/// markers are not significant.
pub fn parse_lens(s: &str) -> Vec<String> {
    s.split('.').filter(|p| !p.is_empty() && *p != "$").map(|p| p.to_string()).collect()
}
