//! Extra content-id construction for C25: arbitrary version / codec / hash code / length field,
//! CIDv0, and the other multibase renderings. Hand-written except base58 (bs58) and base64 (base64).
use super::cidv::{base32_lower, varint};

/// Binary CID: varint(version) varint(codec) varint(hash code) varint(length field) digest bytes.
/// `len_field` is independent of `digest.len()` so malformed ids can be built too.
pub fn cid_bytes(version: u64, codec: u64, hash_code: u64, len_field: u64, digest: &[u8]) -> Vec<u8> {
    let mut b = vec![];
    varint(version, &mut b);
    varint(codec, &mut b);
    varint(hash_code, &mut b);
    varint(len_field, &mut b);
    b.extend_from_slice(digest);
    b
}

/// Multibase text of `bytes`: b/B base32 (no padding), f/F base16, z base58btc, m base64, u base64url.
pub fn multibase(base: char, bytes: &[u8]) -> String {
    use base64::Engine;
    let hex = || bytes.iter().map(|b| format!("{b:02x}")).collect::<String>();
    let body = match base {
        'b' => base32_lower(bytes),
        'B' => base32_lower(bytes).to_ascii_uppercase(),
        'f' => hex(),
        'F' => hex().to_ascii_uppercase(),
        'z' => bs58::encode(bytes).into_string(),
        'm' => base64::engine::general_purpose::STANDARD_NO_PAD.encode(bytes),
        'u' => base64::engine::general_purpose::URL_SAFE_NO_PAD.encode(bytes),
        _ => panic!("multibase: unsupported base {base}"),
    };
    format!("{base}{body}")
}

/// CIDv1 text in the default rendering (base32 lower).
pub fn cid_text(codec: u64, hash_code: u64, digest: &[u8]) -> String {
    multibase('b', &cid_bytes(1, codec, hash_code, digest.len() as u64, digest))
}

/// CIDv0 ("Qm..."): bare base58btc of the sha2-256 multihash, no multibase prefix; implies dag-pb.
pub fn cidv0(sha2_digest: &[u8]) -> String {
    let mut b = vec![0x12u8, 0x20];
    b.extend_from_slice(sha2_digest);
    bs58::encode(b).into_string()
}
