pub mod cidv;
pub mod verify;
pub mod wf;
