pub mod cidv;
pub mod cidx;
pub mod pathkey;
pub mod verify;
pub mod wf;
pub mod seqsem;
