pub mod cidv;
pub mod cidx;
pub mod verify;
pub mod wf;
