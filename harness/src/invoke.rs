//! The single choke point through which every workload calls the interpreter.
use crate::keys::Peer;
use air_interpreter_interface::{CallRequestsRepr, CallResultsRepr, CallServiceResult, RunParameters, SerializedCallResults};
use air_interpreter_sede::{FromSerialized, ToSerialized};
use serde_json::Value;
use std::collections::{BTreeMap, HashMap};

#[derive(Clone, Debug)]
pub struct Limits {
    pub air: u64,
    pub particle: u64,
    pub call_result: u64,
    pub hard: bool,
}

impl Default for Limits {
    fn default() -> Self {
        Limits { air: u64::MAX, particle: u64::MAX, call_result: u64::MAX, hard: false }
    }
}

#[derive(Clone, Debug)]
pub enum CallResultsIn {
    /// id (as string key) -> (ret_code, result string)
    Map(BTreeMap<String, (i32, String)>),
    Raw(Vec<u8>),
}

impl CallResultsIn {
    pub fn empty() -> Self {
        CallResultsIn::Map(BTreeMap::new())
    }
    pub fn is_empty(&self) -> bool {
        matches!(self, CallResultsIn::Map(m) if m.is_empty())
    }
}

#[derive(Clone, Debug)]
pub struct RunInput {
    pub air: String,
    pub prev: Vec<u8>,
    pub cur: Vec<u8>,
    pub init_peer_id: String,
    pub peer_id: String,
    pub secret: Vec<u8>,
    pub particle_id: String,
    pub timestamp: u64,
    pub ttl: u32,
    pub limits: Limits,
    pub call_results: CallResultsIn,
}

impl RunInput {
    pub fn new(air: &str, peer: &Peer, init: &Peer, particle_id: &str) -> RunInput {
        RunInput {
            air: air.to_string(),
            prev: vec![],
            cur: vec![],
            init_peer_id: init.id.clone(),
            peer_id: peer.id.clone(),
            secret: peer.secret.clone(),
            particle_id: particle_id.to_string(),
            timestamp: 1_700_000_000,
            ttl: 30_000,
            limits: Limits::default(),
            call_results: CallResultsIn::empty(),
        }
    }
}

#[derive(Clone, Debug, PartialEq)]
pub struct CallRequest {
    pub service: String,
    pub function: String,
    pub args: Vec<Value>,
    /// per argument, list of (peer_pk, service_id, function_name, lens)
    pub tetraplets: Vec<Vec<(String, String, String, String)>>,
}

#[derive(Clone, Debug)]
pub struct RunOutcome {
    pub ret_code: i64,
    pub error_message: String,
    pub data: Vec<u8>,
    pub next_peers: Vec<String>,
    pub call_requests_raw: Vec<u8>,
    /// decoded requests; Err if the bytes do not decode
    pub requests: Result<BTreeMap<u32, CallRequest>, String>,
    pub flags: (bool, bool, bool),
}

pub fn encode_call_results(m: &BTreeMap<String, (i32, String)>) -> Vec<u8> {
    let hm: HashMap<String, CallServiceResult> =
        m.iter().map(|(k, (c, r))| (k.clone(), CallServiceResult { ret_code: *c, result: r.clone() })).collect();
    let s: SerializedCallResults = CallResultsRepr.serialize(&hm).expect("call results serialize");
    s.to_vec()
}

pub fn decode_requests(raw: &[u8]) -> Result<BTreeMap<u32, CallRequest>, String> {
    use air_interpreter_interface::{CallArgumentsRepr, TetrapletsRepr};
    if raw.is_empty() {
        return Ok(BTreeMap::new());
    }
    let reqs: air_interpreter_interface::CallRequests = CallRequestsRepr.deserialize(raw).map_err(|e| format!("call requests: {e}"))?;
    let mut out = BTreeMap::new();
    for (id, p) in reqs {
        let args: Vec<Value> = FromSerialized::<Vec<Value>>::deserialize(&CallArgumentsRepr, &p.arguments).map_err(|e| format!("args: {e}"))?;
        let tets: Vec<Vec<polyplets::SecurityTetraplet>> =
            FromSerialized::<Vec<Vec<polyplets::SecurityTetraplet>>>::deserialize(&TetrapletsRepr, &p.tetraplets).map_err(|e| format!("tetraplets: {e}"))?;
        let tetraplets = tets
            .into_iter()
            .map(|v| v.into_iter().map(|t| (t.peer_pk, t.service_id, t.function_name, t.lens)).collect())
            .collect();
        out.insert(id, CallRequest { service: p.service_id, function: p.function_name, args, tetraplets });
    }
    Ok(out)
}

thread_local! {
    pub static RUNS: std::cell::Cell<u64> = std::cell::Cell::new(0);
}

pub fn runs_done() -> u64 {
    RUNS.with(|r| r.get())
}

/// Execute the real interpreter once.
pub fn invoke(input: &RunInput) -> RunOutcome {
    RUNS.with(|r| r.set(r.get() + 1));
    let call_results: SerializedCallResults = match &input.call_results {
        CallResultsIn::Map(m) => encode_call_results(m).into(),
        CallResultsIn::Raw(b) => b.clone().into(),
    };
    let params = RunParameters {
        init_peer_id: input.init_peer_id.clone(),
        current_peer_id: input.peer_id.clone(),
        timestamp: input.timestamp,
        ttl: input.ttl,
        key_format: 0, // Ed25519
        secret_key_bytes: input.secret.clone(),
        particle_id: input.particle_id.clone(),
        air_size_limit: input.limits.air,
        particle_size_limit: input.limits.particle,
        call_result_size_limit: input.limits.call_result,
        hard_limit_enabled: input.limits.hard,
    };
    let o = air::execute_air(input.air.clone(), input.prev.clone(), input.cur.clone(), params, call_results);
    let requests = decode_requests(&o.call_requests);
    RunOutcome {
        ret_code: o.ret_code,
        error_message: o.error_message,
        data: o.data,
        next_peers: o.next_peer_pks,
        call_requests_raw: o.call_requests,
        requests,
        flags: (o.air_size_limit_exceeded, o.particle_size_limit_exceeded, o.call_result_size_limit_exceeded),
    }
}

#[derive(Clone, Copy, Debug, PartialEq, Eq)]
pub enum CodeClass {
    Success,
    Preparation,
    Catchable,
    Uncatchable,
    Farewell,
    Other,
}

pub fn classify(code: i64) -> CodeClass {
    match code {
        0 => CodeClass::Success,
        1..=9999 => CodeClass::Preparation,
        10000..=19999 => CodeClass::Catchable,
        20000..=29999 => CodeClass::Uncatchable,
        30000 => CodeClass::Farewell,
        _ => CodeClass::Other,
    }
}
