//! The single choke point through which every workload calls the interpreter.
use crate::keys::Peer;
use air_interpreter_interface::{CallRequestsRepr, CallResultsRepr, CallServiceResult, RunParameters, SerializedCallResults};
use air_interpreter_sede::{FromSerialized, ToSerialized};
use serde_json::Value;
use std::collections::{BTreeMap, HashMap};

#[derive(Clone, Debug, serde::Serialize, serde::Deserialize)]
pub struct Limits {
    pub air: u64,
    pub particle: u64,
    pub call_result: u64,
    pub hard: bool,
}

impl Default for Limits {
    fn default() -> Self {
        Limits { air: u64::MAX, particle: u64::MAX, call_result: u64::MAX, hard: false }
    }
}

#[derive(Clone, Debug, serde::Serialize, serde::Deserialize)]
pub enum CallResultsIn {
    /// id (as string key) -> (ret_code, result string)
    Map(BTreeMap<String, (i32, String)>),
    Raw(#[serde(with = "b64")] Vec<u8>),
}

impl CallResultsIn {
    pub fn empty() -> Self {
        CallResultsIn::Map(BTreeMap::new())
    }
    pub fn is_empty(&self) -> bool {
        matches!(self, CallResultsIn::Map(m) if m.is_empty())
    }
}

#[derive(Clone, Debug, serde::Serialize, serde::Deserialize)]
pub struct RunInput {
    pub air: String,
    #[serde(with = "b64")]
    pub prev: Vec<u8>,
    #[serde(with = "b64")]
    pub cur: Vec<u8>,
    pub init_peer_id: String,
    pub peer_id: String,
    #[serde(with = "b64")]
    pub secret: Vec<u8>,
    pub particle_id: String,
    pub timestamp: u64,
    pub ttl: u32,
    pub limits: Limits,
    pub call_results: CallResultsIn,
}

impl RunInput {
    pub fn new(air: &str, peer: &Peer, init: &Peer, particle_id: &str) -> RunInput {
        RunInput {
            air: air.to_string(),
            prev: vec![],
            cur: vec![],
            init_peer_id: init.id.clone(),
            peer_id: peer.id.clone(),
            secret: peer.secret.clone(),
            particle_id: particle_id.to_string(),
            timestamp: 1_700_000_000,
            ttl: 30_000,
            limits: Limits::default(),
            call_results: CallResultsIn::empty(),
        }
    }
}

#[derive(Clone, Debug, PartialEq)]
pub struct CallRequest {
    pub service: String,
    pub function: String,
    pub args: Vec<Value>,
    /// per argument, list of (peer_pk, service_id, function_name, lens)
    pub tetraplets: Vec<Vec<(String, String, String, String)>>,
}

#[derive(Clone, Debug)]
pub struct RunOutcome {
    pub ret_code: i64,
    pub error_message: String,
    pub data: Vec<u8>,
    pub next_peers: Vec<String>,
    pub call_requests_raw: Vec<u8>,
    /// decoded requests; Err if the bytes do not decode
    pub requests: Result<BTreeMap<u32, CallRequest>, String>,
    pub flags: (bool, bool, bool),
    /// events recorded by the guarded hooks in /repo during this run (stream operations)
    pub events: Vec<air::verif_hooks::Event>,
}

pub fn encode_call_results(m: &BTreeMap<String, (i32, String)>) -> Vec<u8> {
    let hm: HashMap<String, CallServiceResult> =
        m.iter().map(|(k, (c, r))| (k.clone(), CallServiceResult { ret_code: *c, result: r.clone() })).collect();
    let s: SerializedCallResults = CallResultsRepr.serialize(&hm).expect("call results serialize");
    s.to_vec()
}

pub fn decode_requests(raw: &[u8]) -> Result<BTreeMap<u32, CallRequest>, String> {
    use air_interpreter_interface::{CallArgumentsRepr, TetrapletsRepr};
    if raw.is_empty() {
        return Ok(BTreeMap::new());
    }
    let reqs: air_interpreter_interface::CallRequests = CallRequestsRepr.deserialize(raw).map_err(|e| format!("call requests: {e}"))?;
    let mut out = BTreeMap::new();
    for (id, p) in reqs {
        let args: Vec<Value> = FromSerialized::<Vec<Value>>::deserialize(&CallArgumentsRepr, &p.arguments).map_err(|e| format!("args: {e}"))?;
        let tets: Vec<Vec<polyplets::SecurityTetraplet>> =
            FromSerialized::<Vec<Vec<polyplets::SecurityTetraplet>>>::deserialize(&TetrapletsRepr, &p.tetraplets).map_err(|e| format!("tetraplets: {e}"))?;
        let tetraplets = tets
            .into_iter()
            .map(|v| v.into_iter().map(|t| (t.peer_pk, t.service_id, t.function_name, t.lens)).collect())
            .collect();
        out.insert(id, CallRequest { service: p.service_id, function: p.function_name, args, tetraplets });
    }
    Ok(out)
}

/// pseudo ret_code reported when the interpreter panicked (caught by the harness)
pub const PANIC_CODE: i64 = -777;

thread_local! {
    pub static LAST_PANIC: std::cell::RefCell<Option<(String, String)>> = std::cell::RefCell::new(None);
}

pub fn install_panic_hook() {
    static ONCE: std::sync::Once = std::sync::Once::new();
    ONCE.call_once(|| {
        let verbose = std::env::var("VCHECK_PANIC_VERBOSE").is_ok();
        let default = std::panic::take_hook();
        std::panic::set_hook(Box::new(move |info| {
            let loc = info.location().map(|l| format!("{}:{}", l.file(), l.line())).unwrap_or_else(|| "?".into());
            let msg = if let Some(s) = info.payload().downcast_ref::<&str>() {
                s.to_string()
            } else if let Some(s) = info.payload().downcast_ref::<String>() {
                s.clone()
            } else {
                "?".into()
            };
            let in_harness = loc.contains("/verif/") || loc.starts_with("src/");
            LAST_PANIC.with(|p| *p.borrow_mut() = Some((loc, msg)));
            if verbose || in_harness {
                default(info);
            }
        }));
    });
}

/// Run any closure under the panic capture; Err((location, message)) on panic.
pub fn guarded<T>(f: impl FnOnce() -> T) -> Result<T, (String, String)> {
    install_panic_hook();
    LAST_PANIC.with(|p| p.borrow_mut().take());
    match std::panic::catch_unwind(std::panic::AssertUnwindSafe(f)) {
        Ok(v) => Ok(v),
        Err(_) => Err(LAST_PANIC.with(|p| p.borrow_mut().take()).unwrap_or_else(|| ("?".into(), "?".into()))),
    }
}

thread_local! {
    pub static RUNS: std::cell::Cell<u64> = std::cell::Cell::new(0);
}

pub fn runs_done() -> u64 {
    RUNS.with(|r| r.get())
}

/// Execute the real interpreter once.
pub fn invoke(input: &RunInput) -> RunOutcome {
    RUNS.with(|r| r.set(r.get() + 1));
    let call_results: SerializedCallResults = match &input.call_results {
        CallResultsIn::Map(m) => encode_call_results(m).into(),
        CallResultsIn::Raw(b) => b.clone().into(),
    };
    let params = RunParameters {
        init_peer_id: input.init_peer_id.clone(),
        current_peer_id: input.peer_id.clone(),
        timestamp: input.timestamp,
        ttl: input.ttl,
        key_format: 0, // Ed25519
        secret_key_bytes: input.secret.clone(),
        particle_id: input.particle_id.clone(),
        air_size_limit: input.limits.air,
        particle_size_limit: input.limits.particle,
        call_result_size_limit: input.limits.call_result,
        hard_limit_enabled: input.limits.hard,
    };
    install_panic_hook();
    LAST_PANIC.with(|p| p.borrow_mut().take());
    let _ = air::verif_hooks::drain();
    let (air, prev, cur) = (input.air.clone(), input.prev.clone(), input.cur.clone());
    let res = std::panic::catch_unwind(std::panic::AssertUnwindSafe(move || air::execute_air(air, prev, cur, params, call_results)));
    let o = match res {
        Ok(o) => o,
        Err(_) => {
            let loc = LAST_PANIC.with(|p| p.borrow_mut().take()).unwrap_or_else(|| ("?".into(), "?".into()));
            return RunOutcome {
                ret_code: PANIC_CODE,
                error_message: format!("PANIC at {} :: {}", loc.0, loc.1),
                data: vec![],
                next_peers: vec![],
                call_requests_raw: vec![],
                requests: Ok(BTreeMap::new()),
                flags: (false, false, false),
                events: air::verif_hooks::drain(),
            };
        }
    };
    let requests = decode_requests(&o.call_requests);
    RunOutcome {
        ret_code: o.ret_code,
        error_message: o.error_message,
        data: o.data,
        next_peers: o.next_peer_pks,
        call_requests_raw: o.call_requests,
        requests,
        flags: (o.air_size_limit_exceeded, o.particle_size_limit_exceeded, o.call_result_size_limit_exceeded),
        events: air::verif_hooks::drain(),
    }
}

#[derive(Clone, Copy, Debug, PartialEq, Eq)]
pub enum CodeClass {
    Success,
    Preparation,
    Catchable,
    Uncatchable,
    Farewell,
    Other,
}

pub fn classify(code: i64) -> CodeClass {
    match code {
        0 => CodeClass::Success,
        1..=9999 => CodeClass::Preparation,
        10000..=19999 => CodeClass::Catchable,
        20000..=29999 => CodeClass::Uncatchable,
        30000 => CodeClass::Farewell,
        _ => CodeClass::Other,
    }
}

pub mod b64 {
    use base64::Engine;
    use serde::{Deserialize, Deserializer, Serializer};
    pub fn serialize<S: Serializer>(v: &Vec<u8>, s: S) -> Result<S::Ok, S::Error> {
        s.serialize_str(&base64::engine::general_purpose::STANDARD.encode(v))
    }
    pub fn deserialize<'de, D: Deserializer<'de>>(d: D) -> Result<Vec<u8>, D::Error> {
        let s = String::deserialize(d)?;
        base64::engine::general_purpose::STANDARD.decode(s.as_bytes()).map_err(serde::de::Error::custom)
    }
}
