//! Deterministic service model: the result of a call is a pure function of (function name,
//! arguments). The function-name prefix selects the behaviour; every result embeds the function
//! name (unique per call site) and a digest of the arguments, so a value identifies the call-site
//! instance that produced it.
use crate::rng::fnv;
use serde_json::{json, Value};

pub fn digest(args: &[Value]) -> u64 {
    let s = serde_json::to_string(args).unwrap_or_default();
    fnv(s.as_bytes())
}

fn hex4(d: u64) -> String {
    format!("{:04x}", d & 0xffff)
}

/// `peer_ids`: the ids of the executing peers (for `peer*` functions).
pub fn call_service(peer_ids: &[String], max_arr: usize, func: &str, args: &[Value]) -> (i32, String) {
    let d = digest(args);
    let tag = format!("{func}:{}", hex4(d));
    let np = peer_ids.len().max(1);
    let pick = |k: u64| peer_ids.get((k % np as u64) as usize).cloned().unwrap_or_default();
    let kind: String = func.chars().take_while(|c| c.is_ascii_alphabetic()).collect();
    let v: Value = match kind.as_str() {
        "f" | "obj" => json!({
            "tag": tag,
            "a": {"b": [d % 1000, (d >> 10) % 1000 + 1000], "c": format!("{tag}.c")},
            "k": "a",
            "i": (d >> 3) % 2,
            "p": pick(d >> 5),
        }),
        "arr" => {
            let n = 1 + (d >> 7) as usize % max_arr.max(1);
            Value::Array((0..n).map(|i| Value::String(format!("{tag}.{i}"))).collect())
        }
        "arro" => {
            let n = 1 + (d >> 7) as usize % max_arr.max(1);
            Value::Array((0..n).map(|i| json!({"e": format!("{tag}.{i}"), "p": pick((d >> 9) + i as u64), "i": i})).collect())
        }
        "peers" => {
            let n = 1 + (d >> 7) as usize % np;
            let off = (d >> 11) as usize;
            Value::Array((0..n).map(|i| Value::String(pick((off + i) as u64))).collect())
        }
        "peer" => Value::String(pick(d >> 5)),
        "str" => Value::String(tag.clone()),
        "num" => json!((d >> 4) % 100000),
        "idx" => json!((d >> 4) % 2),
        "key" => Value::String(["a", "k", "tag"][(d >> 4) as usize % 3].to_string()),
        "empty" => json!([]),
        "errobj" => json!({"error_code": 4000 + (d % 100), "message": format!("user error {tag}")}),
        "e" | "err" => return (1 + (d % 5) as i32, format!("service failure {tag}")),
        "bad" => return (0, format!("not json {tag}")),
        _ => json!({"tag": tag}),
    };
    (0, v.to_string())
}
