//! Multi-peer simulation: hosts, message queue, scheduler. Every interpreter invocation goes
//! through `invoke::invoke`; a history is the ordered list of steps with their inputs, outcomes
//! and decoded data.
use crate::ast::Ins;
use crate::invoke::*;
use crate::keys::Peer;
use crate::proj;
use crate::rng::{fnv, Rng};
use crate::service;
use serde_json::{json, Value};
use std::collections::{BTreeMap, BTreeSet, HashMap};
use std::rc::Rc;

pub struct World {
    pub peers: Vec<Peer>,
    pub observer: Peer,
    pub air: String,
    pub script: Option<Ins>,
    pub particle_id: String,
    pub max_arr: usize,
}

impl World {
    pub fn new(n_peers: usize, air: String, script: Option<Ins>, particle_id: &str, max_arr: usize) -> World {
        World { peers: standard_peers(n_peers), observer: Peer::new("observer"), air, script, particle_id: particle_id.to_string(), max_arr }
    }
    pub fn peer_ids(&self) -> Vec<String> {
        self.peers.iter().map(|p| p.id.clone()).collect()
    }
    pub fn peer_index(&self, id: &str) -> Option<usize> {
        self.peers.iter().position(|p| p.id == id)
    }
    pub fn peer_name(&self, id: &str) -> String {
        if id == self.observer.id {
            return "observer".into();
        }
        self.peers.iter().find(|p| p.id == id).map(|p| p.name.clone()).unwrap_or_else(|| format!("?{}", proj::short(id)))
    }
    pub fn input(&self, peer: &Peer) -> RunInput {
        RunInput::new(&self.air, peer, &self.peers[0], &self.particle_id)
    }
    pub fn serve(&self, func: &str, args: &[Value]) -> (i32, String) {
        service::call_service(&self.peer_ids(), self.max_arr, func, args)
    }
}

pub fn standard_peers(n: usize) -> Vec<Peer> {
    thread_local! {
        static CACHE: std::cell::RefCell<Vec<Peer>> = std::cell::RefCell::new(vec![]);
    }
    CACHE.with(|c| {
        let mut c = c.borrow_mut();
        while c.len() < n {
            let name = format!("P{}", c.len());
            c.push(Peer::new(&name));
        }
        c[..n].to_vec()
    })
}

pub fn standard_peer_ids(n: usize) -> Vec<String> {
    standard_peers(n).iter().map(|p| p.id.clone()).collect()
}

#[derive(Clone, Debug)]
pub struct Msg {
    pub to: usize,
    pub from: usize,
    pub data: Rc<Vec<u8>>,
}

#[derive(Clone, Debug, Default)]
pub struct Host {
    pub prev: Rc<Vec<u8>>,
    pub pending: BTreeMap<u32, CallRequest>,
}

#[derive(Clone, Debug, PartialEq)]
pub enum Decision {
    /// first run on the init peer with empty data
    Start,
    /// deliver queue[q] to its peer, together with the results of these pending ids
    Deliver { q: usize, results: Vec<u32> },
    /// hand back results for pending ids, no new particle
    Complete { peer: usize, ids: Vec<u32> },
    /// re-enqueue a copy of sent_log[i]
    Duplicate { i: usize },
}

pub struct Step {
    pub idx: usize,
    pub peer: usize,
    pub decision: Decision,
    pub input: RunInput,
    pub out: RunOutcome,
    /// decoded JSON of InterpreterData (None when bytes do not decode)
    pub prev_v: Option<Rc<Value>>,
    pub cur_v: Option<Rc<Value>>,
    pub out_v: Option<Rc<Value>>,
    /// results handed to the interpreter in this run: id -> (function, args, ret_code, result)
    pub results_given: BTreeMap<u32, (CallRequest, i32, String)>,
    /// true if the sender of the current data is known (index), for diagnostics
    pub from: Option<usize>,
}

impl Step {
    pub fn class(&self) -> CodeClass {
        classify(self.out.ret_code)
    }
    pub fn produced_new_data(&self) -> bool {
        matches!(self.class(), CodeClass::Success | CodeClass::Catchable | CodeClass::Farewell)
    }
}

#[derive(Default)]
pub struct DecodeCache {
    map: HashMap<(u64, usize), Option<Rc<Value>>>,
}

impl DecodeCache {
    pub fn get(&mut self, bytes: &[u8]) -> Option<Rc<Value>> {
        let k = (fnv(bytes), bytes.len());
        if let Some(v) = self.map.get(&k) {
            return v.clone();
        }
        let v = proj::decode(bytes).ok().map(|d| Rc::new(d.data));
        self.map.insert(k, v.clone());
        v
    }
}

#[derive(Clone, Default)]
pub struct SimState {
    pub hosts: Vec<Host>,
    pub queue: Vec<Msg>,
    pub sent_log: Vec<Msg>,
    pub dups: usize,
    pub started: bool,
    /// particles addressed to ids that are not executing peers
    pub dropped_unknown: usize,
}

impl SimState {
    pub fn new(n: usize) -> SimState {
        SimState { hosts: vec![Host::default(); n], ..Default::default() }
    }

    pub fn quiescent(&self) -> bool {
        self.started && self.queue.is_empty() && self.hosts.iter().all(|h| h.pending.is_empty())
    }

    pub fn state_hash(&self) -> u64 {
        let mut parts: Vec<u64> = vec![];
        for h in &self.hosts {
            parts.push(fnv(&h.prev));
            parts.push(h.pending.keys().fold(17u64, |a, k| a.wrapping_mul(31).wrapping_add(*k as u64)));
        }
        let mut q: Vec<u64> = self.queue.iter().map(|m| fnv(&m.data).wrapping_mul(31).wrapping_add(m.to as u64)).collect();
        q.sort();
        parts.extend(q);
        let bytes: Vec<u8> = parts.iter().flat_map(|p| p.to_le_bytes()).collect();
        fnv(&bytes)
    }

    /// Apply a decision; runs the interpreter unless the decision is a duplication.
    pub fn apply(&mut self, w: &World, d: &Decision, cache: &mut DecodeCache, idx: usize) -> Option<Step> {
        let (peer, cur, from, ids): (usize, Rc<Vec<u8>>, Option<usize>, Vec<u32>) = match d {
            Decision::Start => {
                self.started = true;
                (0, Rc::new(vec![]), None, vec![])
            }
            Decision::Deliver { q, results } => {
                let m = self.queue.remove(*q);
                (m.to, m.data.clone(), Some(m.from), results.clone())
            }
            Decision::Complete { peer, ids } => (*peer, Rc::new(vec![]), None, ids.clone()),
            Decision::Duplicate { i } => {
                let m = self.sent_log[*i].clone();
                self.queue.push(m);
                self.dups += 1;
                return None;
            }
        };
        let mut input = w.input(&w.peers[peer]);
        input.prev = (*self.hosts[peer].prev).clone();
        input.cur = (*cur).clone();
        let mut results_given = BTreeMap::new();
        let mut crmap = BTreeMap::new();
        for id in &ids {
            if let Some(req) = self.hosts[peer].pending.remove(id) {
                let (code, res) = w.serve(&req.function, &req.args);
                crmap.insert(id.to_string(), (code, res.clone()));
                results_given.insert(*id, (req, code, res));
            }
        }
        input.call_results = CallResultsIn::Map(crmap);
        let out = invoke(&input);
        // the host stores whatever data comes back
        let prev_v = cache.get(&input.prev);
        let cur_v = cache.get(&input.cur);
        let out_v = cache.get(&out.data);
        self.hosts[peer].prev = Rc::new(out.data.clone());
        if let Ok(reqs) = &out.requests {
            for (id, r) in reqs {
                self.hosts[peer].pending.insert(*id, r.clone());
            }
        }
        let data = Rc::new(out.data.clone());
        // the interpreter returns the next peers in hash-set order: sort them, so that a history is a
        // function of the seed alone
        let mut next_sorted = out.next_peers.clone();
        next_sorted.sort_by_key(|p| w.peer_index(p).unwrap_or(usize::MAX));
        for np in &next_sorted {
            match w.peer_index(np) {
                Some(to) => {
                    let m = Msg { to, from: peer, data: data.clone() };
                    self.sent_log.push(m.clone());
                    self.queue.push(m);
                }
                None => self.dropped_unknown += 1,
            }
        }
        Some(Step { idx, peer, decision: d.clone(), input, out, prev_v, cur_v, out_v, results_given, from })
    }
}

#[derive(Clone, Debug)]
pub struct SchedCfg {
    pub max_steps: usize,
    pub max_dups: usize,
    /// per-mille probability of duplicating instead of progressing
    pub dup_bias: u32,
    /// per-mille probability that a delivery carries ready results with it
    pub results_with_delivery: u32,
    /// per-mille probability to complete all pending at once (else a random subset)
    pub batch_all: u32,
    /// prefer delivering particles before completing calls (results arrive late)
    pub late_results: bool,
}

impl Default for SchedCfg {
    fn default() -> Self {
        SchedCfg { max_steps: 200, max_dups: 3, dup_bias: 80, results_with_delivery: 300, batch_all: 400, late_results: false }
    }
}

pub struct History {
    pub steps: Vec<Step>,
    pub decisions: Vec<Decision>,
    pub quiescent: bool,
    pub cut: bool,
    pub dropped_unknown: usize,
    pub final_state: SimState,
}

impl History {
    pub fn decisions_hash(&self) -> u64 {
        fnv(format!("{:?}", self.decisions).as_bytes())
    }
    pub fn final_datas(&self) -> Vec<Rc<Vec<u8>>> {
        self.final_state.hosts.iter().map(|h| h.prev.clone()).collect()
    }
}

fn random_subset(rng: &mut Rng, ids: &[u32], all_permille: u32) -> Vec<u32> {
    if ids.is_empty() {
        return vec![];
    }
    if rng.chance(all_permille, 1000) {
        return ids.to_vec();
    }
    let mut v: Vec<u32> = ids.iter().filter(|_| rng.chance(1, 2)).cloned().collect();
    if v.is_empty() {
        v.push(*rng.pick(ids));
    }
    v
}

/// Run one random history to quiescence or the step bound.
pub fn run_random(w: &World, rng: &mut Rng, cfg: &SchedCfg) -> History {
    let mut st = SimState::new(w.peers.len());
    let mut cache = DecodeCache::default();
    let mut steps = vec![];
    let mut decisions = vec![];
    let mut cut = false;
    let mut total_bytes = 0usize;
    loop {
        if st.quiescent() {
            break;
        }
        // size bounds next to the step bound: a history whose data grows beyond them is cut (counted,
        // excluded from the quiescence clauses) -- every step keeps three decoded copies of its data
        if steps.len() >= cfg.max_steps || total_bytes > 6_000_000 {
            cut = true;
            break;
        }
        let d = if !st.started {
            Decision::Start
        } else {
            let pend_peers: Vec<usize> = (0..st.hosts.len()).filter(|i| !st.hosts[*i].pending.is_empty()).collect();
            let can_dup = st.dups < cfg.max_dups && !st.sent_log.is_empty();
            if can_dup && rng.chance(cfg.dup_bias, 1000) {
                Decision::Duplicate { i: rng.below(st.sent_log.len()) }
            } else {
                let deliver = if st.queue.is_empty() {
                    false
                } else if pend_peers.is_empty() {
                    true
                } else if cfg.late_results {
                    rng.chance(4, 5)
                } else {
                    rng.chance(1, 2)
                };
                if deliver {
                    let q = rng.below(st.queue.len());
                    let to = st.queue[q].to;
                    let ids: Vec<u32> = st.hosts[to].pending.keys().cloned().collect();
                    let results = if !ids.is_empty() && rng.chance(cfg.results_with_delivery, 1000) { random_subset(rng, &ids, cfg.batch_all) } else { vec![] };
                    Decision::Deliver { q, results }
                } else {
                    let peer = *rng.pick(&pend_peers);
                    let ids: Vec<u32> = st.hosts[peer].pending.keys().cloned().collect();
                    Decision::Complete { peer, ids: random_subset(rng, &ids, cfg.batch_all) }
                }
            }
        };
        decisions.push(d.clone());
        if let Some(s) = st.apply(w, &d, &mut cache, steps.len()) {
            total_bytes += s.out.data.len();
            let too_big = s.out.data.len() > 300_000;
            steps.push(s);
            if too_big {
                cut = true;
                break;
            }
        }
    }
    History { steps, decisions, quiescent: !cut && st.quiescent(), cut, dropped_unknown: st.dropped_unknown, final_state: st }
}

/// Replay a fixed decision list.
pub fn run_decisions(w: &World, decisions: &[Decision]) -> History {
    let mut st = SimState::new(w.peers.len());
    let mut cache = DecodeCache::default();
    let mut steps = vec![];
    for d in decisions {
        if let Some(s) = st.apply(w, d, &mut cache, steps.len()) {
            steps.push(s);
        }
    }
    History { steps, decisions: decisions.to_vec(), quiescent: st.quiescent(), cut: false, dropped_unknown: st.dropped_unknown, final_state: st }
}

/// Bounded-exhaustive exploration of scheduler choices (no duplication). Calls `visit` with every
/// maximal history found; states are deduplicated by hash. Returns (states, histories, truncated).
pub fn explore_exhaustive(w: &World, state_budget: usize, max_depth: usize, visit: &mut dyn FnMut(&History)) -> (usize, usize, bool) {
    explore_exhaustive_capped(w, state_budget, max_depth, usize::MAX, visit)
}

/// As `explore_exhaustive`, stopping (truncated) after `max_histories` maximal histories.
pub fn explore_exhaustive_capped(w: &World, state_budget: usize, max_depth: usize, max_histories: usize, visit: &mut dyn FnMut(&History)) -> (usize, usize, bool) {
    struct Frame {
        st: SimState,
        decisions: Vec<Decision>,
    }
    let mut seen: std::collections::HashSet<u64> = Default::default();
    let mut stack = vec![Frame { st: SimState::new(w.peers.len()), decisions: vec![] }];
    let mut histories = 0;
    let mut truncated = false;
    while let Some(f) = stack.pop() {
        if seen.len() >= state_budget || histories >= max_histories {
            truncated = true;
            break;
        }
        let opts: Vec<Decision> = if !f.st.started {
            vec![Decision::Start]
        } else {
            let mut o = vec![];
            let mut seen_msgs: BTreeSet<(usize, u64)> = BTreeSet::new();
            for (q, m) in f.st.queue.iter().enumerate() {
                if !seen_msgs.insert((m.to, fnv(&m.data))) {
                    continue;
                }
                o.push(Decision::Deliver { q, results: vec![] });
                let ids: Vec<u32> = f.st.hosts[m.to].pending.keys().cloned().collect();
                if !ids.is_empty() {
                    o.push(Decision::Deliver { q, results: ids });
                }
            }
            for (p, h) in f.st.hosts.iter().enumerate() {
                let ids: Vec<u32> = h.pending.keys().cloned().collect();
                for id in &ids {
                    o.push(Decision::Complete { peer: p, ids: vec![*id] });
                }
                if ids.len() > 1 {
                    o.push(Decision::Complete { peer: p, ids });
                }
            }
            o
        };
        if opts.is_empty() || f.decisions.len() >= max_depth {
            // maximal history: re-run it to get the recorded steps
            let h = run_decisions(w, &f.decisions);
            histories += 1;
            visit(&h);
            continue;
        }
        for d in opts {
            let mut st = f.st.clone();
            let mut cache = DecodeCache::default();
            // apply without recording (the final replay records)
            let _ = st.apply(w, &d, &mut cache, 0);
            // nothing is duplicated in this mode: the log of sent messages is not needed
            st.sent_log.clear();
            if seen.insert(st.state_hash()) {
                let mut decisions = f.decisions.clone();
                decisions.push(d);
                stack.push(Frame { st, decisions });
            }
        }
    }
    (seen.len(), histories, truncated)
}

/// JSON description of a history for replay files and evidence samples.
pub fn describe(w: &World, h: &History, max_steps: usize) -> Value {
    let steps: Vec<Value> = h
        .steps
        .iter()
        .take(max_steps)
        .map(|s| {
            json!({
                "step": s.idx,
                "peer": w.peers[s.peer].name,
                "decision": format!("{:?}", s.decision),
                "ret_code": s.out.ret_code,
                "error": proj::trunc(&s.out.error_message, 160),
                "next_peers": s.out.next_peers.iter().map(|p| w.peer_name(p)).collect::<Vec<_>>(),
                "requests": s.out.requests.as_ref().map(|r| r.iter().map(|(id, r)| format!("{id}:{}({})", r.function, proj::trunc(&serde_json::to_string(&r.args).unwrap_or_default(), 80))).collect::<Vec<_>>()).unwrap_or_default(),
                "results_given": s.results_given.iter().map(|(id, (r, c, _))| format!("{id}:{}->{c}", r.function)).collect::<Vec<_>>(),
                "trace": s.out_v.as_ref().map(|v| proj::render_trace(v)).unwrap_or_default(),
            })
        })
        .collect();
    json!({
        "air": w.air,
        "peers": w.peers.iter().map(|p| format!("{}={}", p.name, p.id)).collect::<Vec<_>>(),
        "particle_id": w.particle_id,
        "quiescent": h.quiescent,
        "decisions": h.decisions.iter().map(|d| format!("{:?}", d)).collect::<Vec<_>>(),
        "steps": steps,
    })
}
