//! The harness's own AIR syntax tree and printer. Generators build this tree, the printer emits
//! AIR text for the real parser, and the reference oracles (sequential evaluator, beautifier
//! expectation, scoping walker) read this tree -- never the repository's AST.
use std::fmt::Write;

#[derive(Clone, Debug, PartialEq)]
pub enum Acc {
    Idx(u32),
    Field(String),
    /// `.[name]`: index or key taken from a scalar
    ByScalar(String),
}

#[derive(Clone, Debug, PartialEq)]
pub enum Lens {
    Path(Vec<Acc>),
    Length,
}

impl Lens {
    pub fn text(&self) -> String {
        match self {
            Lens::Length => ".length".to_string(),
            Lens::Path(p) => {
                let mut s = String::from(".$");
                for a in p {
                    match a {
                        Acc::Idx(i) => write!(s, ".[{i}]").unwrap(),
                        Acc::Field(f) => write!(s, ".{f}").unwrap(),
                        Acc::ByScalar(n) => write!(s, ".[{n}]").unwrap(),
                    }
                }
                s
            }
        }
    }
}

/// Operand of calls, ap, match, fail: a value expression.
#[derive(Clone, Debug, PartialEq)]
pub enum Val {
    InitPeer,
    LastError(Option<Lens>),
    Error(Option<Lens>),
    Timestamp,
    Ttl,
    Lit(String),
    Int(i64),
    /// float literal, printed verbatim
    Float(String),
    Bool(bool),
    EmptyArr,
    /// any variable, full name with sigil: `x`, `#can`, `#%cm` (streams are not value operands)
    Var(String),
    VarLens(String, Lens),
}

impl Val {
    pub fn text(&self) -> String {
        match self {
            Val::InitPeer => "%init_peer_id%".into(),
            Val::LastError(None) => "%last_error%".into(),
            Val::LastError(Some(l)) => format!("%last_error%{}", l.text()),
            Val::Error(None) => ":error:".into(),
            Val::Error(Some(l)) => format!(":error:{}", l.text()),
            Val::Timestamp => "%timestamp%".into(),
            Val::Ttl => "%ttl%".into(),
            Val::Lit(s) => format!("\"{s}\""),
            Val::Int(i) => i.to_string(),
            Val::Float(f) => f.clone(),
            Val::Bool(b) => b.to_string(),
            Val::EmptyArr => "[]".into(),
            Val::Var(n) => n.clone(),
            Val::VarLens(n, l) => format!("{n}{}", l.text()),
        }
    }
    pub fn var_name(&self) -> Option<&str> {
        match self {
            Val::Var(n) | Val::VarLens(n, _) => Some(n),
            _ => None,
        }
    }
}

#[derive(Clone, Debug, PartialEq)]
pub enum Out {
    None,
    Scalar(String),
    /// `$name`
    Stream(String),
}

#[derive(Clone, Debug, PartialEq)]
pub enum FailBody {
    Lit(i64, String),
    Val(Val), // scalar, scalar with lens, canon with lens, %last_error%, :error:
}

#[derive(Clone, Debug, PartialEq)]
pub enum Ins {
    Call { peer: Val, service: Val, func: Val, args: Vec<Val>, out: Out },
    /// canon peer $stream #canon ; also `%map #%canon` and `%map scalar`
    Canon { peer: Val, src: String, dst: String },
    Ap { arg: Val, out: Out },
    ApMap { key: Val, value: Val, map: String },
    Seq(Box<Ins>, Box<Ins>),
    Par(Box<Ins>, Box<Ins>),
    Xor(Box<Ins>, Box<Ins>),
    Never,
    Null,
    New(String, Box<Ins>),
    Fail(FailBody),
    /// fold over scalar/canon iterable (Val) or stream/map (name with sigil in `Val::Var`)
    Fold { iterable: Val, it: String, body: Box<Ins>, last: Option<Box<Ins>> },
    Next(String),
    Match(Val, Val, Box<Ins>),
    Mismatch(Val, Val, Box<Ins>),
}

pub fn seq(a: Ins, b: Ins) -> Ins {
    Ins::Seq(Box::new(a), Box::new(b))
}
pub fn par(a: Ins, b: Ins) -> Ins {
    Ins::Par(Box::new(a), Box::new(b))
}
pub fn xor(a: Ins, b: Ins) -> Ins {
    Ins::Xor(Box::new(a), Box::new(b))
}
pub fn seq_all(mut v: Vec<Ins>) -> Ins {
    match v.len() {
        0 => Ins::Null,
        1 => v.pop().unwrap(),
        _ => {
            let first = v.remove(0);
            seq(first, seq_all(v))
        }
    }
}

impl Ins {
    pub fn text(&self) -> String {
        let mut s = String::new();
        self.write(&mut s, 0);
        s
    }

    fn write(&self, s: &mut String, ind: usize) {
        let pad = " ".repeat(ind);
        match self {
            Ins::Call { peer, service, func, args, out } => {
                write!(s, "{pad}(call {} ({} {}) [", peer.text(), service.text(), func.text()).unwrap();
                for (i, a) in args.iter().enumerate() {
                    if i > 0 {
                        s.push(' ');
                    }
                    s.push_str(&a.text());
                }
                s.push(']');
                match out {
                    Out::None => {}
                    Out::Scalar(n) | Out::Stream(n) => write!(s, " {n}").unwrap(),
                }
                s.push(')');
            }
            Ins::Canon { peer, src, dst } => write!(s, "{pad}(canon {} {src} {dst})", peer.text()).unwrap(),
            Ins::Ap { arg, out } => {
                let o = match out {
                    Out::Scalar(n) | Out::Stream(n) => n.clone(),
                    Out::None => "_".into(),
                };
                write!(s, "{pad}(ap {} {o})", arg.text()).unwrap()
            }
            Ins::ApMap { key, value, map } => write!(s, "{pad}(ap ({} {}) {map})", key.text(), value.text()).unwrap(),
            Ins::Seq(a, b) | Ins::Par(a, b) | Ins::Xor(a, b) => {
                let kw = match self {
                    Ins::Seq(..) => "seq",
                    Ins::Par(..) => "par",
                    _ => "xor",
                };
                writeln!(s, "{pad}({kw}").unwrap();
                a.write(s, ind + 1);
                s.push('\n');
                b.write(s, ind + 1);
                s.push(')');
            }
            Ins::Never => write!(s, "{pad}(never)").unwrap(),
            Ins::Null => write!(s, "{pad}(null)").unwrap(),
            Ins::New(n, b) => {
                writeln!(s, "{pad}(new {n}").unwrap();
                b.write(s, ind + 1);
                s.push(')');
            }
            Ins::Fail(FailBody::Lit(c, m)) => write!(s, "{pad}(fail {c} \"{m}\")").unwrap(),
            Ins::Fail(FailBody::Val(v)) => write!(s, "{pad}(fail {})", v.text()).unwrap(),
            Ins::Fold { iterable, it, body, last } => {
                writeln!(s, "{pad}(fold {} {it}", iterable.text()).unwrap();
                body.write(s, ind + 1);
                if let Some(l) = last {
                    s.push('\n');
                    l.write(s, ind + 1);
                }
                s.push(')');
            }
            Ins::Next(n) => write!(s, "{pad}(next {n})").unwrap(),
            Ins::Match(a, b, i) | Ins::Mismatch(a, b, i) => {
                let kw = if matches!(self, Ins::Match(..)) { "match" } else { "mismatch" };
                writeln!(s, "{pad}({kw} {} {}", a.text(), b.text()).unwrap();
                i.write(s, ind + 1);
                s.push(')');
            }
        }
    }

    pub fn count(&self) -> usize {
        match self {
            Ins::Seq(a, b) | Ins::Par(a, b) | Ins::Xor(a, b) => 1 + a.count() + b.count(),
            Ins::New(_, b) | Ins::Match(_, _, b) | Ins::Mismatch(_, _, b) => 1 + b.count(),
            Ins::Fold { body, last, .. } => 1 + body.count() + last.as_ref().map(|l| l.count()).unwrap_or(0),
            _ => 1,
        }
    }

    pub fn depth(&self) -> usize {
        match self {
            Ins::Seq(a, b) | Ins::Par(a, b) | Ins::Xor(a, b) => 1 + a.depth().max(b.depth()),
            Ins::New(_, b) | Ins::Match(_, _, b) | Ins::Mismatch(_, _, b) => 1 + b.depth(),
            Ins::Fold { body, last, .. } => 1 + body.depth().max(last.as_ref().map(|l| l.depth()).unwrap_or(0)),
            _ => 1,
        }
    }

    /// visit all instructions pre-order
    pub fn walk<'a>(&'a self, f: &mut dyn FnMut(&'a Ins)) {
        f(self);
        match self {
            Ins::Seq(a, b) | Ins::Par(a, b) | Ins::Xor(a, b) => {
                a.walk(f);
                b.walk(f);
            }
            Ins::New(_, b) | Ins::Match(_, _, b) | Ins::Mismatch(_, _, b) => b.walk(f),
            Ins::Fold { body, last, .. } => {
                body.walk(f);
                if let Some(l) = last {
                    l.walk(f);
                }
            }
            _ => {}
        }
    }

    pub fn kind(&self) -> &'static str {
        match self {
            Ins::Call { .. } => "call",
            Ins::Canon { .. } => "canon",
            Ins::Ap { .. } => "ap",
            Ins::ApMap { .. } => "ap_map",
            Ins::Seq(..) => "seq",
            Ins::Par(..) => "par",
            Ins::Xor(..) => "xor",
            Ins::Never => "never",
            Ins::Null => "null",
            Ins::New(..) => "new",
            Ins::Fail(..) => "fail",
            Ins::Fold { .. } => "fold",
            Ins::Next(..) => "next",
            Ins::Match(..) => "match",
            Ins::Mismatch(..) => "mismatch",
        }
    }
}
