//! Peers with real ed25519 keys: peer ids are real `12D3Koo…` ids, signatures are checked as in
//! production.
use sha2::{Digest, Sha256};

#[derive(Clone)]
pub struct Peer {
    pub name: String,
    pub id: String,
    pub secret: Vec<u8>,
    pub signing: ed25519_dalek::SigningKey,
    /// base58 of the libp2p-protobuf encoded public key (the key of the signature store)
    pub pk_b58: String,
}

impl Peer {
    pub fn new(name: &str) -> Peer {
        let mut h = Sha256::new();
        h.update(b"vharness-peer:");
        h.update(name.as_bytes());
        let secret: [u8; 32] = h.finalize().into();
        let signing = ed25519_dalek::SigningKey::from_bytes(&secret);
        let kp = fluence_keypair::KeyPair::from_secret_key(secret.to_vec(), fluence_keypair::KeyFormat::Ed25519)
            .expect("valid ed25519 secret");
        let id = kp.public().to_peer_id().to_string();
        let pk_b58 = bs58::encode(kp.public().encode()).into_string();
        Peer { name: name.to_string(), id, secret: secret.to_vec(), signing, pk_b58 }
    }
}

impl std::fmt::Debug for Peer {
    fn fmt(&self, f: &mut std::fmt::Formatter<'_>) -> std::fmt::Result {
        write!(f, "Peer({}:{})", self.name, &self.id[self.id.len() - 6..])
    }
}
