//! Sanitizer passes of the thorough tier: the same workloads replayed under AddressSanitizer (a
//! second build of this harness, made by `./check`) and under valgrind memcheck (the plain release
//! binary). A report of either tool is a violation; a pass that cannot run is inconclusive.
use crate::report::{Cfg, Stats};
use crate::sentry::{run_isolated, CaseResult, SAN_MARKERS};
use serde_json::{json, Value};
use std::path::PathBuf;
use std::process::Command;
use std::time::Duration;

pub fn is_subrun() -> bool {
    std::env::var("VCHECK_SUBRUN").is_ok()
}

pub fn asan_bin() -> Option<PathBuf> {
    let p = PathBuf::from(std::env::var("VCHECK_ASAN_BIN").ok()?);
    if p.is_file() {
        Some(p)
    } else {
        None
    }
}

pub fn valgrind() -> Option<String> {
    let ok = Command::new("valgrind").arg("--version").output().map(|o| o.status.success()).unwrap_or(false);
    if ok {
        Some("valgrind -q --error-markers=VCHECK-VG-BEGIN,VCHECK-VG-END --error-exitcode=97 --max-stackframe=8500000 --main-stacksize=16777216".to_string())
    } else {
        None
    }
}

/// first frame of a report that lies in the repository or the harness
fn first_frame(report: &str) -> String {
    for l in report.lines() {
        for marker in ["/repo/", "aquavm", "air_", "air::"] {
            if let Some(i) = l.find(marker) {
                let t: String = l[i..].chars().take_while(|c| !c.is_whitespace() && *c != ')').collect();
                // strip line numbers so that the signature is stable
                return t.split(':').next().unwrap_or(&t).to_string();
            }
        }
    }
    "unknown-frame".into()
}

fn kind_of(report: &str) -> &'static str {
    for (needle, kind) in [
        ("heap-buffer-overflow", "heap-buffer-overflow"),
        ("stack-buffer-overflow", "stack-buffer-overflow"),
        ("heap-use-after-free", "use-after-free"),
        ("Invalid read", "invalid-read"),
        ("Invalid write", "invalid-write"),
        ("uninitialised", "uninitialised-value"),
        ("Invalid free", "invalid-free"),
        ("Mismatched free", "mismatched-free"),
        ("overlap", "overlapping-copy"),
    ] {
        if report.contains(needle) {
            return kind;
        }
    }
    "report"
}

/// Replay isolated worker cases (the C01 format) under a tool. `launcher` is the binary, or a
/// launcher line ending in the binary. Deaths without a report (stack overflow, allocation) are
/// judged by the ordinary pass and only counted here.
pub fn replay_cases(tool: &str, launcher: &str, cases: &[(String, Value)], workers: usize, scratch: &str, timeout: Duration, prop: &str, st: &mut Stats) {
    let vals: Vec<Value> = cases.iter().map(|c| c.1.clone()).collect();
    let results = run_isolated(std::path::Path::new(launcher), &vals, workers, scratch, 0, timeout);
    let _ = std::fs::remove_dir_all(scratch);
    for ((label, case), r) in cases.iter().zip(results) {
        st.inc(&format!("{tool}_cases"), 1);
        let report = match &r {
            CaseResult::Done(v) => v.get("sanitizer_report").and_then(|x| x.as_str()).map(|s| s.to_string()),
            CaseResult::Died { stderr_tail, .. } if SAN_MARKERS.iter().any(|m| stderr_tail.contains(m)) => Some(stderr_tail.clone()),
            CaseResult::Died { .. } => {
                st.inc(&format!("{tool}_worker_deaths_without_a_report"), 1);
                None
            }
            CaseResult::Timeout => {
                st.inc(&format!("{tool}_cases_cut_by_the_watchdog"), 1);
                None
            }
            CaseResult::Harness(e) => {
                st.inc(&format!("{tool}_harness_errors"), 1);
                st.label(&format!("{tool}_harness_error_kinds"), &crate::proj::trunc(e, 60));
                None
            }
        };
        if matches!(r, CaseResult::Done(_)) {
            st.inc(&format!("{tool}_cases_completed"), 1);
        }
        if let Some(rep) = report {
            st.violation(prop, &format!("{tool}-{}@{}", kind_of(&rep), first_frame(&rep)), &format!("{tool} reports on {label}: {}", crate::proj::trunc(&rep, 1200)), 0, json!({"label": label, "case": case}));
        }
    }
}

/// Run a whole check again under a tool, as a subprocess with its own scratch VERIF_DIR.
pub fn subrun(tool: &str, launcher: &str, prop: &str, cfg: &Cfg, scale_div: u64, threads: usize, st: &mut Stats) {
    let verif_dir = std::env::var("VERIF_DIR").unwrap_or_else(|_| "/verif".to_string());
    let scratch = format!("{verif_dir}/.cache/san/{tool}-{prop}");
    let _ = std::fs::create_dir_all(&scratch);
    let _ = std::fs::copy(format!("{verif_dir}/known_findings.json"), format!("{scratch}/known_findings.json"));
    let mut parts = launcher.split(' ').filter(|p| !p.is_empty());
    let program = parts.next().unwrap_or("");
    let out = Command::new(program)
        .args(parts)
        .args(["run", prop, "quick", "--seed", &cfg.seed.to_string(), "--threads", &threads.to_string()])
        .env("VERIF_DIR", &scratch)
        .env("VCHECK_SUBRUN", "1")
        .env("VCHECK_SCALE_DIV", scale_div.to_string())
        .env("ASAN_OPTIONS", "detect_leaks=0:halt_on_error=1:abort_on_error=1:detect_stack_use_after_return=0")
        .output();
    let out = match out {
        Ok(o) => o,
        Err(e) => {
            st.inconclusive.push(format!("{tool} sub-run of {prop} could not be started: {e}"));
            return;
        }
    };
    let stdout = String::from_utf8_lossy(&out.stdout).to_string();
    let stderr = String::from_utf8_lossy(&out.stderr).to_string();
    let evals: u64 = stdout.rsplit("evaluations=").next().and_then(|t| t.split_whitespace().next()).and_then(|n| n.parse().ok()).unwrap_or(0);
    st.inc(&format!("{tool}_subrun_evaluations"), evals);
    st.inc(&format!("{tool}_subruns"), 1);
    let all = format!("{stdout}\n{stderr}");
    if SAN_MARKERS.iter().any(|m| all.contains(m)) {
        let at = SAN_MARKERS.iter().filter_map(|m| all.find(m)).min().unwrap_or(0);
        let rep = &all[at.saturating_sub(200)..];
        st.violation(prop, &format!("{tool}-{}@{}", kind_of(rep), first_frame(rep)), &format!("{tool} reports while re-running the {prop} workload: {}", crate::proj::trunc(rep, 1500)), 0, json!({"tool": tool}));
    } else if evals == 0 {
        st.inconclusive.push(format!("{tool} sub-run of {prop} evaluated nothing (exit {:?}): {}", out.status.code(), crate::proj::trunc(stderr.trim(), 300)));
    }
    let _ = std::fs::remove_dir_all(&scratch);
}

/// The sanitizer passes of a pure-function check (thorough tier, not inside a sub-run).
pub fn passes_for(prop: &str, cfg: &Cfg, st: &mut Stats) {
    if !cfg.thorough || is_subrun() || cfg.only_case.is_some() {
        return;
    }
    match asan_bin() {
        Some(bin) => subrun("asan", &bin.to_string_lossy(), prop, cfg, 1, cfg.threads, st),
        None => st.inconclusive.push("the AddressSanitizer build of the harness is not available (see .cache/asan-build.log)".into()),
    }
    match valgrind() {
        Some(vg) => {
            let exe = std::env::current_exe().map(|p| p.to_string_lossy().to_string()).unwrap_or_default();
            subrun("memcheck", &format!("{vg} {exe}"), prop, cfg, 40, 4, st)
        }
        None => st.inconclusive.push("valgrind is not available".into()),
    }
}

/// Miri pass (C01 thorough): the driver crate `harness-miri` interprets complete interpreter runs,
/// the decode/print paths and the text entry points under Tree Borrows, in `shards` processes.
pub fn miri_pass(cfg: &Cfg, shards: u64, full_runs_per_shard: u64, st: &mut Stats) {
    let verif_dir = std::env::var("VERIF_DIR").unwrap_or_else(|_| "/verif".to_string());
    let dir = format!("{verif_dir}/harness-miri");
    if std::env::var("VCHECK_MIRI_READY").is_err() || !std::path::Path::new(&dir).is_dir() {
        st.inconclusive.push("the Miri driver is not set up (vendored crate source missing, see .cache/miri-setup.log)".into());
        return;
    }
    let run_shard = |shard: u64| -> (Option<i32>, String) {
        let out = Command::new("cargo")
            .current_dir(&dir)
            .args(["+nightly", "miri", "run", "--offline", "--"])
            .args([shard.to_string(), shards.to_string(), full_runs_per_shard.to_string(), cfg.seed.to_string()])
            .env("MIRIFLAGS", "-Zmiri-disable-isolation -Zmiri-tree-borrows")
            .env("RUSTFLAGS", "--cfg aquavm_verif --cap-lints=warn")
            .env_remove("RUSTUP_TOOLCHAIN")
            .output();
        match out {
            Ok(o) => (o.status.code(), format!("{}\n{}", String::from_utf8_lossy(&o.stdout), String::from_utf8_lossy(&o.stderr))),
            Err(e) => (None, format!("spawn failed: {e}")),
        }
    };
    // the first shard builds; the others then find the build fresh and run in parallel
    let mut outputs = vec![run_shard(0)];
    let rest: Vec<(Option<i32>, String)> = std::thread::scope(|s| {
        let hs: Vec<_> = (1..shards).map(|k| s.spawn(move || run_shard(k))).collect();
        hs.into_iter().map(|h| h.join().unwrap_or((None, "thread panicked".into()))).collect()
    });
    outputs.extend(rest);
    for (shard, (code, text)) in outputs.iter().enumerate() {
        st.inc("miri_shards", 1);
        if let Some(line) = text.lines().find(|l| l.starts_with("MIRI-PASS")) {
            for kv in line.split_whitespace().skip(1) {
                if let Some((k, v)) = kv.split_once('=') {
                    st.inc(&format!("miri_{k}"), v.parse().unwrap_or(0));
                }
            }
            st.inc("miri_shards_completed", 1);
        } else if text.contains("Undefined Behavior") || text.contains("unsupported operation") && text.contains("miri") {
            let at = text.find("Undefined Behavior").or_else(|| text.find("unsupported operation")).unwrap_or(0);
            let rep = &text[at.saturating_sub(100)..];
            let frame = rep.lines().filter_map(|l| l.trim().strip_prefix("--> ")).find(|l| l.contains("/repo/")).map(|l| l.split(':').next().unwrap_or(l).to_string()).unwrap_or_else(|| "outside-the-repository".into());
            let sig = if text.contains("Undefined Behavior") { "miri-undefined-behaviour" } else { "miri-unsupported-operation" };
            if sig == "miri-undefined-behaviour" {
                st.violation("C01", &format!("{sig}@{frame}"), &format!("Miri shard {shard}: {}", crate::proj::trunc(rep, 1500)), 0, json!({"shard": shard}));
            } else {
                st.inconclusive.push(format!("Miri shard {shard} met an unsupported operation at {frame}"));
            }
        } else {
            st.inconclusive.push(format!("Miri shard {shard} did not complete (exit {:?}): {}", code, crate::proj::trunc(text.trim().rsplit("\n\n").next().unwrap_or(""), 300)));
        }
    }
    st.label("sanitizers", "miri(tree-borrows)");
}
