//! vharness-miri <shard> <shards> <n_full_runs>
//! Run under `cargo +nightly miri run`. Prints `MIRI-PASS <counts>` when everything completed.
use vharness::invoke::*;
use vharness::rng::Rng;
use vharness::sim::*;

fn main() {
    let args: Vec<String> = std::env::args().collect();
    let shard: u64 = args.get(1).and_then(|s| s.parse().ok()).unwrap_or(0);
    let shards: u64 = args.get(2).and_then(|s| s.parse().ok()).unwrap_or(1);
    let n_full: u64 = args.get(3).and_then(|s| s.parse().ok()).unwrap_or(1);
    let seed: u64 = args.get(4).and_then(|s| s.parse().ok()).unwrap_or(1);
    let mut rng = Rng::derive(seed, 0x3141, shard);
    let peers = standard_peers(2);
    let (me, other) = (&peers[0], &peers[1]);
    let mut runs = 0u64;
    let mut decodes = 0u64;
    let mut texts = 0u64;
    // complete interpreter runs on small scripts: calls, streams, canon, fold, xor, new
    let scripts = [
        format!("(seq (call \"{0}\" (\"svc\" \"f1\") [] x) (call \"{0}\" (\"svc\" \"f2\") [x.$.a.b.[0] x] $s))", me.id),
        format!("(seq (seq (ap \"a\" $s) (ap \"b\" $s)) (seq (canon \"{0}\" $s #can) (fold #can it (seq (call \"{0}\" (\"svc\" \"f3\") [it #can.length]) (next it)))))", me.id),
        format!("(xor (seq (call \"{0}\" (\"svc\" \"e1\") [] x) (null)) (call \"{1}\" (\"svc\" \"f4\") [:error:.$.message %last_error%.$.error_code]))", me.id, other.id),
        format!("(new $n (seq (ap (\"k\" 1) %m) (seq (canon \"{0}\" %m #%cm) (call \"{0}\" (\"svc\" \"f5\") [#%cm.$.k.[0]] $n))))", me.id),
    ];
    let mut datas: Vec<Vec<u8>> = vec![];
    for k in 0..n_full {
        let idx = ((shard + k * shards) % scripts.len() as u64) as usize;
        let w = World::new(2, scripts[idx].clone(), None, &format!("miri-{shard}-{k}"), 3);
        // drive the init peer to the end
        let mut prev: Vec<u8> = vec![];
        let mut pending: std::collections::BTreeMap<u32, CallRequest> = Default::default();
        for round in 0..4 {
            let mut input = w.input(me);
            input.prev = prev.clone();
            let mut cr = std::collections::BTreeMap::new();
            if round > 0 {
                if pending.is_empty() {
                    break;
                }
                for (id, r) in std::mem::take(&mut pending) {
                    let (c, res) = w.serve(&r.function, &r.args);
                    cr.insert(id.to_string(), (c, res));
                }
            }
            input.call_results = CallResultsIn::Map(cr);
            let o = invoke(&input);
            runs += 1;
            assert!(o.ret_code != PANIC_CODE, "interpreter panicked under Miri: {}", o.error_message);
            if let Ok(reqs) = &o.requests {
                pending.extend(reqs.iter().map(|(i, r)| (*i, r.clone())));
            }
            if o.ret_code != 0 {
                break;
            }
            prev = o.data;
        }
        if !prev.is_empty() {
            // the other peer merges the data (verification, CID checks, trace merge)
            let mut input = w.input(other);
            input.cur = prev.clone();
            let o = invoke(&input);
            runs += 1;
            assert!(o.ret_code != PANIC_CODE, "interpreter panicked under Miri: {}", o.error_message);
            datas.push(prev);
        }
    }
    // decode paths on honest and mutated bytes, human-readable printing
    for d in &datas {
        for m in 0..3 {
            let bytes = if m == 0 { d.clone() } else { vharness::tamper::mutate_bytes(&mut rng, d) };
            let _ = vharness::proj::decode(&bytes);
            let _ = guarded(|| air::to_human_readable_data(bytes.clone()));
            decodes += 1;
        }
    }
    // value type, parser and beautifier on texts (the from_utf8_unchecked sites are in Display and the beautifier)
    let samples = [
        r#"{"a":[1,2.5,-0.0,1e308,"é😀\n"],"b":{"c":null,"d":true}}"#.to_string(),
        "[[[[\"x\"]]],{}]".to_string(),
        "\"\\u0000\\u001f \\\" \\\\ /\"".to_string(),
    ];
    for s in &samples {
        if let Ok(v) = serde_json::from_str::<serde_json::Value>(s) {
            let j: air_interpreter_value::JValue = v.clone().into();
            let t = j.to_string();
            let back: serde_json::Value = serde_json::from_str(&t).expect("JValue text parses");
            assert_eq!(back, v);
            texts += 1;
        }
    }
    for s in &scripts {
        let mut out = vec![];
        let _ = air_beautifier::beautify(s, &mut out, true);
        let _ = air_beautifier::beautify(&s.replace("svc", "sé\u{1F600}"), &mut out, false);
        let _ = air_parser::parse(&vharness::tamper::mutate_bytes(&mut rng, s.as_bytes()).iter().map(|b| (*b % 94 + 32) as char).collect::<String>());
        texts += 1;
    }
    println!("MIRI-PASS runs={runs} decodes={decodes} texts={texts}");
}
