#!/bin/bash
# Build the verification harness offline from files on disk.
set -e
cd "$(dirname "$0")"
export CARGO_NET_OFFLINE=true
cp /repo/Cargo.lock harness/Cargo.lock
cp /repo/rust-toolchain.toml harness/rust-toolchain.toml
(cd harness && cargo build --release --offline 2>&1 | tail -3)
mkdir -p evidence replays
