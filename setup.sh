#!/bin/bash
# Build the verification harness offline from files on disk (about 2 minutes on 16 cores).
set -e -o pipefail
cd "$(dirname "$0")"
export CARGO_NET_OFFLINE=true
cp /repo/Cargo.lock harness/Cargo.lock
mkdir -p .cache && cp /repo/Cargo.lock .cache/Cargo.lock.repo
cp /repo/rust-toolchain.toml harness/rust-toolchain.toml
mkdir -p evidence replays .cache
(cd harness && cargo build --release --offline 2>&1 | tail -3)
test -x harness/target/release/vcheck
echo "setup ok"
