#!/bin/bash
# Scratch environment for trying seeded changes without touching /repo or /verif:
#   tools/mutenv.sh run <patch.diff> <Cxx> [<Cxx>...]     (env TIER=thorough, VERIF_SEED=n)
# keeps a git worktree of /repo's HEAD at /tmp/mutenv/repo and a path-rewritten copy of /verif at
# /tmp/mutenv/verif (its own target dir). Nothing registered in MANIFEST.json depends on it.
set -u
ME=/tmp/mutenv
sync_env() {
  mkdir -p $ME
  head=$(git -C /repo rev-parse HEAD)
  if [ ! -d $ME/repo ]; then git -C /repo worktree add -q --detach $ME/repo "$head" || exit 2; fi
  git -C $ME/repo checkout -q -- . ; git -C $ME/repo clean -fdq -- air crates avm
  git -C $ME/repo checkout -q --detach "$head"
  mkdir -p $ME/verif
  # the COMMITTED state of /verif (work in progress there must not disturb a running trial)
  find $ME/verif -mindepth 1 -maxdepth 1 ! -name harness -exec rm -rf {} + 2>/dev/null
  find $ME/verif/harness -mindepth 1 -maxdepth 1 ! -name target -exec rm -rf {} + 2>/dev/null
  git -C /verif archive HEAD -- . ':!evidence' ':!seeded' | tar -x -C $ME/verif
  mkdir -p $ME/verif/evidence $ME/verif/replays $ME/verif/.cache
  sed -i "s#/repo/#$ME/repo/#g" $ME/verif/harness/Cargo.toml $ME/verif/harness-miri/Cargo.toml $ME/verif/harness/src/errcodes.rs $ME/verif/check $ME/verif/setup.sh
  if [ ! -d $ME/verif/harness/target ]; then cp -r /verif/harness/target $ME/verif/harness/target; fi
}
case "${1:-}" in
  run)
    patch="$2"; shift 2
    sync_env
    ( cd $ME/repo && git apply "$patch" ) || { echo "patch does not apply"; exit 2; }
    cd $ME/verif
    for p in "$@"; do
      out=$(VERIF_SEED="${VERIF_SEED:-1}" ./check "$p" ${TIER:-quick} 2>/dev/null)
      code=$?
      echo "== $p exit=$code :: $(echo "$out" | grep -c '^VIOLATION') violation lines; $(echo "$out" | grep '^VIOLATION' | sed 's/.*sig=\([^ ]*\).*/\1/' | sort | uniq -c | tr '\n' ';')"
      echo "$out" | tail -1 | cut -c1-200
    done
    git -C $ME/repo checkout -q -- .
    ;;
  pinned)
    # pinned test-suite with a patch applied, in the scratch worktree (own target dir)
    patch="$2"
    sync_env
    ( cd $ME/repo && git apply "$patch" ) || { echo "patch does not apply"; exit 2; }
    ( cd $ME/repo && CARGO_TARGET_DIR=$ME/repo-target cargo test --workspace --no-fail-fast --offline 2>&1 | grep -E "^test result" | awk '{p+=$4; f+=$6} END {print "pinned: passed=" p " failed=" f}' )
    git -C $ME/repo checkout -q -- .
    ;;
  *) echo "usage: mutenv.sh run|pinned <patch> [Cxx...]"; exit 2;;
esac
