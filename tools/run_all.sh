#!/bin/bash
# tools/run_all.sh [quick|thorough]: every registered check once, exit codes and evidence validation.
tier="${1:-quick}"
cd "$(dirname "$0")/.."
for p in $(python3 -c "import json; print(' '.join(c['property_id'] for c in json.load(open('MANIFEST.json'))['checks']))"); do
  rm -f evidence/$p.json
  out=$(./check $p $tier 2>/dev/null); code=$?
  v=$(python3-vt -c "
import json,jsonschema,sys
try:
    jsonschema.validate(json.load(open('evidence/$p.json')),json.load(open('/root/.vp/EVIDENCE.schema.json'))); print('evidence-ok')
except Exception as e:
    print('EVIDENCE-INVALID', str(e)[:100])
" 2>&1)
  echo "$p exit=$code $v :: $(echo "$out" | tail -1 | cut -c1-150) :: $(echo "$out" | grep -c '^KNOWN-FINDING') known lines"
  echo "$out" | grep -a '^VIOLATION\|^INCONCLUSIVE' | cut -c1-300
done
