#!/usr/bin/env python3
"""Writes /verif/MANIFEST.json. Run by hand after adding or removing a check (never at check time)."""
import json, os

HERE = os.path.dirname(os.path.dirname(os.path.abspath(__file__)))

HOOK_COMMITS = [
    'f06c255 verif hooks: states recorded after the next of a stream-fold iteration that a run leaves unconsumed (FoldAfterStatesUnconsumed, counted by FoldFSM); cfg aquavm_verif only',
    "d11bf43 verif hooks: script-text position of stream operands (StreamUse) and span of new scopes (ScopeSpan), emitted before the existing StreamAdd / CanonSnapshot / FoldStart / ScopeStart events; cfg aquavm_verif only",
    "86b1c71 verif hooks: unclaimed fold lore split into unvisited / unreplayed / lost mapping (consumed positions recorded by the trace slider), event for a call that fails while resolving arguments although it is recorded as sent; cfg aquavm_verif only",
    "d3baacf verif hooks: event sink for stream appends, scopes, canon snapshots and stream fold iterations, compiled only with --cfg aquavm_verif",
    "116de8b verif hooks: report the snapshot taken by canon of a stream map into a scalar (cfg aquavm_verif only)",
    "73efcd9 verif hooks: report fold iterations recorded in merged data that no iteration claimed at the end of a stream fold (cfg aquavm_verif only)",
    "3273da9 verif hooks: split the unclaimed fold lore by cause (value replayed but not iterated / value without a position in the new trace), cfg aquavm_verif only",
]

TRUST = ("Trusted base: the harness's host/service/scheduler model (src/sim.rs), the script generator, and the "
         "third-party crates serde_json, sha2, blake3, ed25519-dalek, cid. The interpreter is the native build of "
         "/repo's working tree (release profile mirrored: overflow checks on, debug assertions off, 8 MiB stacks), "
         "signatures checked and generated as in production. Nothing is claimed for inputs outside the generated "
         "classes or larger than the size knobs.")

# id -> (text, note, technique, design_ref)
C = {
 "C01": ("Hostile-input workload run in isolated worker processes under a crash/abort/allocation monitor: held on the "
         "tampered-but-signed data, byte-level mutations, hostile scripts and call results actually executed (thousands of "
         "distinct cases per run). A sentry cannot show totality for all inputs; it shows no crash on the classes driven, "
         "and known recursion-depth crashes are listed as findings. The thorough tier replays 6 000 of the cases under AddressSanitizer, 600 under "
         "valgrind memcheck and runs a Miri (Tree Borrows) driver over complete interpreter runs, decode/print paths and text entry points.",
         "memory bound is an explicit loose linear bound (64 MiB + 256 x input bytes); a 60 s wall-clock watchdog is inconclusive, never a violation. " + TRUST,
         "process-level crash/allocation sentry over hostile workloads; ASan, valgrind memcheck and Miri passes in the thorough tier", "5/C01 and 12.8"),
 "C02": ("Online monitor at the execute_air boundary over every run of generated multi-peer histories plus a late-failure "
         "workload: failed runs must return prev byte-for-byte with no peers/requests, other runs must return decodable, "
         "verifiable data that contains every result handed in.", TRUST, "online outcome-rule monitor on every run", "5/C02"),
 "C03": ("Every produced data of honest histories is checked by an independent verifier (CIDs recomputed, referential closure, "
         "ed25519 signatures) and offered to other peers as current data.", TRUST, "independent data verifier + cross-peer acceptance", "5/C03"),
 "C04": ("Random and bounded-exhaustive schedules (reordering, duplication, late/batched results) of honest histories; any "
         "data-consistency error code on any run is a violation.", TRUST, "error-code monitor over adversarial schedules", "5/C04"),
 "C05": ("Offline exactly-once / conservation checker over complete histories with unique call-site identities: results handed "
         "in = results recorded, no call class requested or recorded more often than it occurs.", TRUST, "offline history checker (exactly-once, conservation)", "5/C05"),
 "C06": ("Monotonic freshness of request ids over histories, and an adversarial host that returns results under pending, stale, "
         "never-issued and extreme ids with unique nonces so routing is unambiguous.", TRUST, "history monitor + nonce routing", "5/C06"),
 "C07": ("At every non-failing step the peer is re-run with the merged data as previous and each of b, a, c, nothing as current; "
         "trace must be unchanged, no requests, no next peers.", TRUST, "idempotence re-execution monitor", "5/C07"),
 "C08": ("Order/grouping differential on real interpreter runs: the distinct data of each generated history are merged at an observer in all "
         "permutations (or 16 random orders), through a second observer in random groupings, and at a participating peer; knowledge (result ids "
         "with multiplicity and content) must agree, traces must agree up to senders for stream-free scripts, state multisets up to generations otherwise.",
         TRUST, "merge-order differential on real runs", "5/C08"),
 "C09": ("Per-run conservation: result ids (calls, failed calls, canons) of the output dominate those of both inputs with the "
         "same content.", TRUST, "online conservation monitor", "5/C09"),
 "C10": ("Independent well-formedness walker over every produced trace (par coverage, nesting, fold lore partition, value "
         "positions, generation placeholders).", TRUST, "structural invariant checker on produced traces", "5/C10"),
 "C11": ("Canon instances keyed by structural position across all peers' data: one key never binds two content ids; at creation "
         "the content equals the stream snapshot reported by the guarded event sink.", TRUST + " Uses the cfg(aquavm_verif) event sink.", "cross-peer single-assignment monitor + hook snapshot", "5/C11"),
 "C12": ("Event sink reports source generation of every stream value; the output trace gives final generations; relative order "
         "prev<cur<new and inside each source must be preserved and dense.", TRUST + " Uses the cfg(aquavm_verif) event sink.", "ordering monitor over hook events", "5/C12"),
 "C13": ("Event sink reports every stream append, canon snapshot and fold visit; checked: no double insertion, no lost append, "
         "snapshots equal appends so far, folds visit each value at most once and every generation head.", TRUST + " Uses the cfg(aquavm_verif) event sink.", "exactly-once monitor over hook events", "5/C13"),
 "C14": ("Fault enumeration with a participating attacker: 18 tampering operations (value, id, tetraplet, argument-hash edits with consistently "
         "repaired stores, relocation, kind change, duplication, removal, signature edits, re-attribution, canon edits, whole-data replay from another "
         "particle) applied to every third-party result in the last deliveries of generated honest histories, the attacker's own signature renewed; "
         "the receiver must reject, or its output must verify, contain only results their peers really produced, at the positions of the honest merge.",
         TRUST + " The attacker cannot forge other peers' ed25519 signatures. Ground truth = the honest history of the same particle.",
         "fault enumeration (tamper catalogue) with ground-truth oracle", "5/C14"),
 "C15": ("Fault enumeration over honestly signed forks of one peer's data: at generated fork points (a par of 2-4 pending calls, with repeated "
         "result ids) every subset is answered, and every ordered pair of versions is delivered to a victim; incomparable result multisets must be "
         "rejected with the signature-check error and prev returned, comparable ones merged keeping the larger version's signature.",
         TRUST + " Multisets are read with the harness decoder; the enumeration is complete per fork point, fork points are sampled.",
         "fault enumeration (forked signer) with multiset oracle", "5/C15"),
 "C16": ("Reference-model monitor: an independent sequential evaluator of the C16 fragment (written from the language documentation over the "
         "harness's own syntax tree and the deterministic service model) gives the calls the sequential reading makes; every call request of every "
         "run of generated multi-peer histories must be one of them (same peer, service, function, argument values), with multiplicity.",
         TRUST + " The reference evaluator (harness/src/oracle/seqsem.rs) is part of the trusted base; inclusion only (calls that wait forever are not violations).",
         "reference-model monitor (sequential evaluator) over histories", "5/C16"),
 "C17": ("For every request matched by the sequential reference evaluator, each argument's tetraplet must equal the provenance the evaluator carries "
         "(literal/built-in, producing call, lens accessor sequence, fold iterator index), wherever the value was produced; a generated canon-stream "
         "workload checks that elements of #can, #can.$.[i], paths into elements and iterators over #can keep the element's own origin.",
         TRUST + " Lenses compared as accessor sequences; scalar accessors accepted as written or resolved; functors counted only.",
         "reference-model monitor (provenance-carrying evaluator)", "5/C17"),
 "C18": ("Differential on the real interpreter: each generated instruction (15 kinds of catchable, uncatchable, succeeding and waiting "
         "instructions) in a generated context is driven to the end twice on one peer, bare and wrapped in (xor F observer); the observer "
         "must be requested exactly for catchable failures and must receive the code and message the bare run reports.",
         TRUST + " The class of a failure is read from the documented code ranges of the bare run.", "caught/uncaught differential on the real interpreter", "5/C18"),
 "C19": ("Per-run routing rules (no self/duplicate next peers, requests only at literal target, new results attributed to the "
         "running peer, sent states imply a next peer) and bounded-progress quiescence check after merging at an observer.",
         TRUST + " Quiescence is judged as bounded progress (200 steps) on failure-free scripts.", "routing monitor + bounded-progress check", "5/C19"),
 "C20": ("Each input executed three times in-process and again in a fresh process; code, message, decoded data, requests and "
         "next-peer set must be equal.", TRUST, "repeat-execution differential", "5/C20"),
 "C21": ("Honest runs repeated with envelopes re-versioned over a grid around the minimal supported version; oracle is "
         "hand-written semver precedence.", TRUST, "boundary grid against independent semver oracle", "5/C21"),
 "C22": ("Honest runs repeated under the full grid {0,size-1,size,size+1,max}^3 x {soft,hard}; oracle: exceeded iff actual > limit, "
         "otherwise identical to the unlimited run.", TRUST, "boundary grid differential", "5/C22"),
 "C23": ("Parser under a panic guard on generated, scoping-broken, mutated and random texts; every accepted tree is walked by an "
         "independent scoping checker. Three acceptance gaps are recorded as known findings.", TRUST, "totality sentry + independent scoping walker", "5/C23"),
 "C24": ("Each lens evaluated by the interpreter inside a script and by plain serde_json navigation (small exhaustive domain sample "
         "+ random values/paths, canon streams and maps).", TRUST, "reference-model differential; the thorough tier re-runs the workload under ASan and valgrind memcheck", "5/C24"),
 "C25": ("Nine construction routes per value against an independently computed CID; ~65 id mutations judged by the verify functions.",
         TRUST, "reference-model differential + fault catalogue; the thorough tier re-runs the workload under ASan and valgrind memcheck", "5/C25"),
 "C26": ("JValue against serde_json::Value on conversion, printing, parsing, comparison and accessors over generated and directed values.",
         TRUST, "reference-model differential; the thorough tier re-runs the workload under ASan and valgrind memcheck", "5/C26"),
 "C27": ("Round trips of data, envelopes, call request/result maps through every decoder, with independent msgpack readers; codec-tag "
         "replacement must fail.", TRUST, "round-trip monitor + tag fault catalogue; the thorough tier re-runs the workload under ASan and valgrind memcheck", "5/C27"),
 "C28": ("Beautifier output parsed by an independent reader and compared line by line with the rendering of the harness syntax tree.",
         TRUST, "reference-model differential; the thorough tier re-runs the workload under ASan and valgrind memcheck", "5/C28"),
}

NOT_BUILT = {
}

checks = []
for pid in sorted(C):
    text, note, tech, ref = C[pid]
    checks.append({
        "property_id": pid,
        "quick_cmd": f"./check {pid} quick",
        "thorough_cmd": f"./check {pid} thorough",
        "evidence_file": f"/verif/evidence/{pid}.json",
        "replay_cmd_template": f"./check {pid} --replay {{path}}",
        "engine": "vharness",
        "level_claimed": {"category": "fault_enumeration" if pid in ("C14", "C15") else "exploration", "text": text, "design_ref": "DESIGN.md section " + ref},
        "level_note": note,
        "technique": tech,
    })

m = {
    "version": 1,
    "setup_cmd": "./setup.sh",
    "hooks": {
        "guard": "--cfg aquavm_verif",
        "enable": "harness/.cargo/config.toml sets [build] rustflags = [\"--cfg\", \"aquavm_verif\"]; every ./check builds /repo's crates through path dependencies with it (air/src/verif_hooks.rs event sink). Without the cfg nothing of it is compiled.",
        "baseline_off_cmd": "cd /repo && cargo test --workspace --no-fail-fast --offline",
        "source_commits": HOOK_COMMITS,
        "add_only": True,
    },
    "engines": [{
        "name": "vharness",
        "path": "/verif/harness",
        "serves_properties": sorted(C),
        "kind_free_text": "Rust crate linking the interpreter natively; workloads (honest multi-peer histories, hostile inputs) + per-property monitors; ./check Cxx quick|thorough rebuilds against /repo's working tree and runs `vcheck run`",
    }],
    "checks": checks,
    "not_applicable": [{"property_id": k, "reason": v} for k, v in sorted(NOT_BUILT.items())],
    "notes": "Known findings and fixed entries: /verif/known_findings.json (committed, never written at run time). Exit codes: 0 held on what was observed (KNOWN-FINDING lines allowed), 1 VIOLATION, 2 build error or inconclusive (never printed as VIOLATION).",
}
json.dump(m, open(os.path.join(HERE, "MANIFEST.json"), "w"), indent=1)
print("wrote MANIFEST.json with", len(checks), "checks")
