#!/bin/bash
# Builds a cargo "directory source" from the crates cached for the repository's toolchain, so that the
# 2026 nightly (whose cargo names the registry directory differently) finds them offline.
set -e
dst="${1:-/verif/.cache/miri-vendor}"
[ -f "$dst/.complete" ] && exit 0
src=$(ls -d ~/.cargo/registry/cache/*-d8f576cf6a597a10 | head -1)
rm -rf "$dst"; mkdir -p "$dst"
one() {
  f="$1"; dst="$2"
  tar -xzf "$f" -C "$dst"
  n=$(basename "$f" .crate)
  printf '{"files":{},"package":"%s"}' "$(sha256sum "$f" | cut -d' ' -f1)" > "$dst/$n/.cargo-checksum.json"
}
export -f one
ls "$src"/*.crate | xargs -P 16 -n 1 -I@@ bash -c 'one "@@" "'"$dst"'"'
touch "$dst/.complete"
echo "vendored $(ls "$dst" | wc -l) crates into $dst"
