#!/bin/bash
# tools/seed_regression.sh: every seeded change against the quick check of its own property
# (scratch environment, committed /verif). Prints one line per seed.
cd "$(dirname "$0")/.."
for d in seeded/*/; do
  n=$(basename $d); p=${n%%-*}
  r=$(tools/mutenv.sh run /verif/$d/patch.diff $p 2>&1 | grep "^== ")
  echo "$n $r"
done
