#!/bin/bash
# tools/mutate.sh <patch-file> <Cxx> [<Cxx> ...]
# Applies a patch to /repo, runs the quick checks named, prints their verdict lines, and always
# restores /repo afterwards. Used by hand for validating monitors against seeded changes.
set -u
patch="$1"; shift
cd /repo || exit 2
if ! git diff --quiet; then echo "/repo has uncommitted changes; refusing"; exit 2; fi
git apply "$patch" || { echo "patch does not apply"; exit 2; }
trap 'git -C /repo checkout -- . ; git -C /repo clean -fdq -- air crates avm 2>/dev/null' EXIT
cd /verif
for p in "$@"; do
  out=$(VERIF_SEED="${VERIF_SEED:-1}" ./check "$p" ${TIER:-quick} 2>/dev/null)
  code=$?
  echo "== $p exit=$code :: $(echo "$out" | grep -c '^VIOLATION') violation lines; $(echo "$out" | grep '^VIOLATION' | sed 's/.*sig=\([^ ]*\).*/\1/' | sort | uniq -c | tr '\n' ';')"
  echo "$out" | tail -1 | cut -c1-200
done
