#!/bin/bash
# tools/confirm_seed.sh <seed-dir (patch.diff, demo.diff, meta.json)> <out-log> <Cxx> [<Cxx>...]
# Confirms a seeded change by hand-run steps, all in scratch places except the temporary application
# to /repo that the checks need:  (1) checks against /repo with the patch applied (then restored),
# (2) the pinned test-suite with the patch applied in the scratch environment (then restored), (3) the demonstration in
# the scratch worktree /tmp/seed/probe with and without the patch.
set -u
sd="$1"; log="$2"; shift 2
exec >"$log" 2>&1
echo "### seed $sd"; cat "$sd/meta.json"; echo


echo "### (1) checks with the patch applied in the scratch environment"
/verif/tools/mutenv.sh run "$sd/patch.diff" "$@"
echo "### (2) pinned suite with the patch applied in the scratch environment"
/verif/tools/mutenv.sh pinned "$sd/patch.diff"

echo "### (3) demonstration in the scratch worktree"
cd /tmp/seed/probe && git checkout -q -- . && git clean -fdq air crates && git apply "$sd/patch.diff" && git apply "$sd/demo.diff" || { echo "APPLY-FAILED"; exit 2; }
cmd=$(python3 -c "import json,sys; print(json.load(open('$sd/meta.json'))['demo_cmd'])")
cmd="cargo test ${cmd#*cargo test}"
echo "demo cmd: $cmd"
( export CARGO_TARGET_DIR=/tmp/seed/probe-target CARGO_NET_OFFLINE=true; eval "$cmd" 2>&1 | grep -E "^test result|^test .*(FAILED|ok)$" | tail -6; echo "WITH PATCH exit=${PIPESTATUS[0]}" )
git apply -R "$sd/patch.diff"
( export CARGO_TARGET_DIR=/tmp/seed/probe-target CARGO_NET_OFFLINE=true; eval "$cmd" 2>&1 | grep -E "^test result|^test .*(FAILED|ok)$" | tail -6; echo "WITHOUT PATCH exit=${PIPESTATUS[0]}" )
git checkout -q -- . ; git clean -fdq air crates
echo "### done"
